#!/bin/bash
# Build the overlay virtualenv of /venv with the solver wheels (offline).
set -e
cd "$(dirname "$0")"
if [ ! -x .venv/bin/python ] || ! .venv/bin/python -c "import z3, cvc5, sympy, numpy" 2>/dev/null; then
  rm -rf .venv
  /venv/bin/python -m venv .venv
  echo "import site; site.addsitedir('/venv/lib/python3.12/site-packages')" > .venv/lib/python3.12/site-packages/_overlay.pth
  PIP_NO_INDEX=1 .venv/bin/pip install -q --no-index --find-links /opt/veriftools/wheels z3-solver cvc5 jsonschema >/dev/null
fi
.venv/bin/python -c "import z3, cvc5, sympy, numpy, ampform; print('overlay ok: z3', z3.get_version_string(), 'ampform from', ampform.__file__)"
