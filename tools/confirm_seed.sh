#!/bin/bash
# usage: confirm_seed.sh <dir with patch.diff demo.py> ; verifies in a scratch worktree:
#  clean tree: demo exits 0; patched: demo exits !=0 and test suite == baseline (302 passed, 8 errors)
d="$1"; wt=$(mktemp -d /tmp/confirm_XXXX); rmdir $wt
git -C /repo worktree add --detach "$wt" HEAD >/dev/null 2>&1 || exit 9
cd "$wt"
PYTHONPATH=$wt/src timeout 900 /venv/bin/python "$d/demo.py" >/dev/null 2>&1; clean=$?
git apply "$d/patch.diff" || { echo "APPLY-FAIL"; git -C /repo worktree remove --force "$wt"; exit 8; }
PYTHONPATH=$wt/src timeout 900 /venv/bin/python "$d/demo.py" >/dev/null 2>&1; patched=$?
summary=$(PYTHONPATH=$wt/src timeout 1500 /venv/bin/python -m pytest -q -p no:cacheprovider --timeout=900 -x --deselect tests/helicity/test_angular_distributions.py 2>&1 | tail -1)
cd /; git -C /repo worktree remove --force "$wt"
echo "$d clean_demo_exit=$clean patched_demo_exit=$patched tests: $summary"
