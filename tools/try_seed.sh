#!/bin/bash
# usage: try_seed.sh <seed dir> <check id> [tier]  -- apply patch to /repo, run the check, always revert
d="$1"; id="$2"; tier="${3:-quick}"
cd /repo && git apply "$d/patch.diff" || { echo APPLY-FAIL; exit 9; }
cd /verif && timeout 3000 ./check "$id" --tier "$tier" 2>&1 | grep -E "VIOLATION|KNOWN|INCONCL|HARNESS|^C[0-9]+ \[" | cut -c1-260 | head -${LINES_MAX:-12}
rc=${PIPESTATUS[0]}
git -C /repo checkout -- . ; git -C /repo status --short | head -3
echo "exit=$rc"
