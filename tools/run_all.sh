#!/bin/bash
# usage: tools/run_all.sh quick|thorough   -- runs every registered check, prints exit code and wall time
tier="${1:-quick}"
cd "$(dirname "$0")/.."
for id in $(python3 -c "import json;print(' '.join(c['property_id'] for c in json.load(open('MANIFEST.json'))['checks']))"); do
  start=$(date +%s)
  ./check "$id" --tier "$tier" > "/tmp/runall_${tier}_$id.log" 2>&1
  rc=$?
  echo "$id tier=$tier exit=$rc wall=$(( $(date +%s)-start ))s :: $(grep -E "^$id \[" /tmp/runall_${tier}_$id.log | tail -1 | cut -c1-170)"
done
