"""Known finding C05 (axis-angle alignment, massless spin-1 final state), shown at physical events through lambdify.
Run: /venv/bin/python tools/c05_massless_axisangle_events.py  -> prints unaligned vs aligned intensity (they differ;
with final_state K0 Sigma+ p~ / Sigma(1660)~- and the masses adjusted the two columns agree)."""
import qrules, sympy as sp, numpy as np
from ampform import get_builder
from ampform.helicity.align.axisangle import AxisAngleAlignment
r = qrules.generate_transitions(initial_state=("J/psi(1S)", [-1, +1]), final_state=["gamma","pi0","pi0"],
    allowed_intermediate_particles=["f(2)(1270)"], allowed_interaction_types=["strong","EM"], formalism="helicity", number_of_threads=1)
print(len(r.transitions))
def build(align):
    b = get_builder(r)
    if align: b.config.spin_alignment = AxisAngleAlignment()
    b.config.scalar_initial_state_mass = True
    b.config.stable_final_state_ids = [0,1,2]
    return b.formulate()
m0 = build(False); m1 = build(True)
rng = np.random.default_rng(1)
def evaluate(m, seed=0):
    full = m.expression.doit().xreplace({k: v.doit() for k,v in m.amplitudes.items()}) if hasattr(m,'amplitudes') else m.expression.doit()
    full = m.expression.xreplace(m.amplitudes).doit()
    full = full.xreplace(m.parameter_defaults)
    from ampform.sympy import PoolSum
    full = full.doit()
    kv = {k: v.doit() for k,v in m.kinematic_variables.items()}
    full = full.xreplace(kv).doit()
    syms = sorted(full.free_symbols, key=str)
    return full, syms
f0, s0 = evaluate(m0); f1, s1 = evaluate(m1)
print(s0, s1)
allsyms = sorted(set(s0)|set(s1), key=str)
# momenta: generate a phase space event in J/psi rest frame
M=3.0969; 
def event(rng):
    while True:
        m=[0,0.135,0.135]
        # random 3-body via sampling s12.. simple: random momenta p1,p2 then p3=-(p1+p2), scale to conserve energy
        p1=rng.normal(size=3); p2=rng.normal(size=3); p3=-(p1+p2)
        from scipy.optimize import brentq
        E=lambda a: sum(np.sqrt(mm**2+a*a*(p@p)) for mm,p in zip(m,(p1,p2,p3)))-M
        a=brentq(E,0,10)
        ps=[a*p for p in (p1,p2,p3)]
        return [np.array([[np.sqrt(mm**2+p@p),*p]]) for mm,p in zip(m,ps)]
for trial in range(3):
    ev = event(rng)
    vals={}
    for s in allsyms:
        n=str(s)
        if n.startswith('p') and n[1:].isdigit(): vals[n]=ev[int(n[1:])]
        elif n=='m_012': vals[n]=M
        else: vals[n]=M
    def num(f,syms):
        fn=sp.lambdify(syms,f,'numpy')
        return fn(*[vals[str(s)] for s in syms])
    print(num(f0,s0), num(f1,s1))
