#!/bin/bash
# usage: tools/seed_matrix.sh [parallel jobs] [procs per job]
# Runs every seeded change against its property's own quick check (scratch worktree of /repo HEAD + patch)
# and rewrites seeded/RESULTS.md.  /repo itself is never touched.
jobs="${1:-3}"; procs="${2:-5}"
out=$(mktemp /tmp/seedmatrix_XXXX)
ls -d /verif/seeded/C*_* | xargs -P "$jobs" -I{} bash -c 'd={}; id=$(basename $d | cut -d_ -f1); VERIF_PROCS='"$procs"' SEED_TIMEOUT=1500 /verif/tools/try_seed_wt.sh $d $id quick 2>&1 | grep -E "check=|APPLY-FAIL" | head -1 | sed "s|^APPLY-FAIL|$(basename $d) APPLY-FAIL (patch does not apply to the repaired tree)|"' >> "$out"
{
  echo "# Seeded changes against the property's own quick check"
  echo
  echo "Produced by \`tools/seed_matrix.sh\` on /repo HEAD $(git -C /repo rev-parse --short HEAD) with /verif $(git -C /verif rev-parse --short HEAD)."
  echo "exit 1 = VIOLATION reported (caught); 0 = not noticed; 2 = inconclusive; 3 = harness error (no verdict)."
  echo
  echo '```'
  sort "$out" | cut -c1-260
  echo '```'
} > /verif/seeded/RESULTS.md
rm -f "$out"
