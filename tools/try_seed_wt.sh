#!/bin/bash
# usage: try_seed_wt.sh <seed dir> <check id> [tier]
# Runs a check against a scratch worktree of /repo (HEAD + working-tree state of /repo is NOT used: HEAD only)
# with the seed's patch applied; /repo itself is untouched, so several trials can run in parallel.
d="$1"; id="$2"; tier="${3:-quick}"
wt=$(mktemp -d /tmp/seedrun_XXXX); rmdir "$wt"
git -C /repo worktree add --detach "$wt" HEAD >/dev/null 2>&1 || exit 9
( cd "$wt" && git apply "$d/patch.diff" ) || { echo APPLY-FAIL; git -C /repo worktree remove --force "$wt"; exit 9; }
ev=$(mktemp -d /tmp/seedev_XXXX)
cd /verif && AMPFORM_SRC="$wt/src" VERIF_EVIDENCE_DIR="$ev" VERIF_REPLAY_DIR="$ev" VERIF_PROCS="${VERIF_PROCS:-6}" timeout ${SEED_TIMEOUT:-3000} ./check "$id" --tier "$tier" > "$ev/out.txt" 2>&1
rc=$?
nv=$(grep -c "^VIOLATION" "$ev/out.txt"); ni=$(grep -c "^INCONCLUSIVE" "$ev/out.txt"); nh=$(grep -c "HARNESS-ERROR" "$ev/out.txt")
first=$(grep -A1 "^VIOLATION" "$ev/out.txt" | grep selector | head -2 | tr '\n' ' ' | cut -c1-240)
echo "$(basename $d) check=$id tier=$tier exit=$rc violations=$nv inconclusive=$ni harness_errors=$nh :: $first"
grep -E "^C[0-9]+ \[" "$ev/out.txt" | tail -1
git -C /repo worktree remove --force "$wt"; rm -rf "$ev"
