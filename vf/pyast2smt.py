"""E3: small Python function bodies, read from /repo's source with `ast`, as transition systems for z3.

`extract_cache_program` turns the body of a cache-style function (perform_cached_doit) into a step
program over an abstract environment (file states), by recognising the statements it is made of.
Anything it does not recognise raises `Unsupported` (the check is then inconclusive, never 'pass').

Step program ops (each is one atomic step of one process):
  ("key",)                    compute the cache key of this call's expression
  ("exists?", L_true, L_false) branch on the existence of FILE
  ("open_r", L_handled)       open FILE for reading (raises if absent; to L_handled when caught)
  ("load_return", L_handled)  pickle.load: returns the stored value if FILE is complete; if partial it raises --
                              to L_handled when a try/except around it catches, else out of the function
  ("doit",)                   VAL := doit(expr)
  ("open_w", target)          target in {"FILE", "TMP"}: create/truncate -> partial
  ("dump", target)            -> complete(VAL)
  ("replace",)                os.replace(TMP, FILE): atomic; raises FileNotFoundError if TMP is absent (possible only when
                              the temporary name is shared between processes: CacheProgram.tmp_private is False)
  ("unlink", target)
  ("return_val",)             return VAL
  ("goto", L)
"""

from __future__ import annotations

import ast
import inspect
import textwrap

from .core import Unsupported


def _call_name(node) -> str:
    if isinstance(node, ast.Call):
        f = node.func
        if isinstance(f, ast.Attribute):
            return f.attr
        if isinstance(f, ast.Name):
            return f.id
    return ""


def _names(node) -> set[str]:
    return {n.id for n in ast.walk(node) if isinstance(n, ast.Name)}


class CacheProgram:
    def __init__(self):
        self.ops: list[tuple] = []
        self.notes: list[str] = []
        self.tmp_private = True  # whether TMP is a per-process file (else one file per key, shared)

    def emit(self, *op) -> int:
        self.ops.append(tuple(op))
        return len(self.ops) - 1


def extract_cache_program(fn) -> CacheProgram:
    src = textwrap.dedent(inspect.getsource(fn))
    tree = ast.parse(src)
    fdef = tree.body[0]
    if not isinstance(fdef, ast.FunctionDef):
        raise Unsupported("not a function")
    prog = CacheProgram()
    env = {"file_vars": set(), "tmp_vars": set(), "val_vars": set(), "key_vars": set(), "expr_arg": fdef.args.args[0].arg}

    def is_file(node):
        return bool(_names(node) & env["file_vars"]) and not (_names(node) & env["tmp_vars"])

    def is_tmp(node):
        return bool(_names(node) & env["tmp_vars"])

    def stmt(s, handled_label=None):  # noqa: C901, PLR0911, PLR0912
        if isinstance(s, ast.Expr) and isinstance(s.value, ast.Constant):
            return  # docstring
        if isinstance(s, ast.Expr) and _call_name(s.value) in ("warning", "info", "debug", "mkdir", "warn"):
            return  # logging, directory creation: no effect on the modelled state
        if isinstance(s, ast.Expr) and _call_name(s.value) in ("replace", "rename") and len(s.value.args) >= 1:
            prog.emit("replace")
            return
        if isinstance(s, ast.Expr) and _call_name(s.value) in ("unlink", "remove"):
            prog.emit("unlink", "TMP" if is_tmp(s.value) else "FILE")
            return
        if isinstance(s, ast.Assign) and len(s.targets) == 1 and isinstance(s.targets[0], ast.Name):
            tgt, val = s.targets[0].id, s.value
            cn = _call_name(val)
            if cn == "get_readable_hash":
                env["key_vars"].add(tgt)
                prog.emit("key")
                return
            if cn == "doit":
                env["val_vars"].add(tgt)
                prog.emit("doit")
                return
            if _names(val) & env["key_vars"] or (_names(val) & env["file_vars"] and cn not in ("open",)):
                # a path derived from the key (or from the file path): the cache file or a temporary sibling
                txt = ast.unparse(val)
                if _names(val) & env["file_vars"] or "tmp" in tgt.lower() or "temp" in tgt.lower() or ".tmp" in txt:
                    env["tmp_vars"].add(tgt)
                    # a temporary name is private to the process only if something process-unique enters it
                    private = any(w in txt for w in ("getpid", "uuid", "token_hex", "get_ident", "time_ns", "mkstemp", "NamedTemporaryFile"))
                    prog.tmp_private = getattr(prog, "tmp_private", True) and private
                    prog.notes.append(f"temporary file name {txt!r}: {'private to the process' if private else 'SHARED by all processes working on the same key'}")
                else:
                    env["file_vars"].add(tgt)
                return
            if cn in ("get_system_cache_directory", "version", "Path") or isinstance(val, (ast.BinOp, ast.JoinedStr, ast.Constant)):
                return  # directory computations
            if cn in ("mkstemp", "NamedTemporaryFile", "mktemp"):
                env["tmp_vars"].add(tgt)
                if cn == "mktemp":
                    prog.tmp_private = False  # the name can be reused before the file exists
                return
            raise Unsupported(f"assignment not understood: {ast.unparse(s)}")
        if isinstance(s, ast.If):
            test = ast.unparse(s.test)
            if _call_name(s.test) in ("exists", "is_file") and is_file(s.test):
                br = prog.emit("exists?", None, None)
                t_lbl = len(prog.ops)
                for b in s.body:
                    stmt(b, handled_label)
                jmp = prog.emit("goto", None)
                f_lbl = len(prog.ops)
                for b in s.orelse:
                    stmt(b, handled_label)
                end = len(prog.ops)
                prog.ops[br] = ("exists?", t_lbl, f_lbl)
                prog.ops[jmp] = ("goto", end)
                return
            if "is None" in test or "isinstance" in test:
                for b in s.body:  # argument normalisation (cache_directory): no effect on the modelled state
                    if not isinstance(b, (ast.Assign, ast.Expr)):
                        raise Unsupported(f"statement in argument normalisation: {ast.unparse(b)}")
                return
            raise Unsupported(f"condition not understood: {test}")
        if isinstance(s, ast.With) and len(s.items) == 1 and _call_name(s.items[0].context_expr) == "open":
            call = s.items[0].context_expr
            mode = "r"
            if len(call.args) > 1 and isinstance(call.args[1], ast.Constant):
                mode = call.args[1].value
            for kw in call.keywords:
                if kw.arg == "mode" and isinstance(kw.value, ast.Constant):
                    mode = kw.value.value
            target = "TMP" if is_tmp(call.args[0]) else "FILE" if is_file(call.args[0]) else None
            if target is None:
                raise Unsupported(f"open() of an unknown path: {ast.unparse(call)}")
            if "w" in mode:
                prog.emit("open_w", target)
                for b in s.body:
                    if isinstance(b, ast.Expr) and _call_name(b.value) == "dump":
                        prog.emit("dump", target)
                    elif isinstance(b, ast.Expr) and _call_name(b.value) in ("flush", "fsync"):
                        continue
                    else:
                        raise Unsupported(f"statement inside a write block: {ast.unparse(b)}")
                return
            prog.emit("open_r", handled_label)
            for b in s.body:
                if isinstance(b, ast.Return) and _call_name(b.value) == "load":
                    prog.emit("load_return", handled_label)
                elif isinstance(b, ast.Assign) and _call_name(b.value) == "load":
                    env["val_vars"].add(b.targets[0].id)
                    prog.emit("load_assign", handled_label)
                else:
                    raise Unsupported(f"statement inside a read block: {ast.unparse(b)}")
            return
        if isinstance(s, ast.Try):
            catches = any(h.type is None or any(n in ast.unparse(h.type) for n in ("Exception", "EOFError", "UnpicklingError", "PickleError", "OSError")) for h in s.handlers)
            marker = prog.emit("try_enter")
            body_start = len(prog.ops)
            lbl_holder = [None]
            for b in s.body:
                stmt(b, ("handler", marker) if catches else handled_label)
            jmp = prog.emit("goto", None)
            h_lbl = len(prog.ops)
            for h in s.handlers:
                for b in h.body:
                    if isinstance(b, ast.Pass):
                        continue
                    stmt(b, handled_label)
            end = len(prog.ops)
            prog.ops[jmp] = ("goto", end)
            prog.ops[marker] = ("handler_at", h_lbl)
            del body_start, lbl_holder
            for b in s.finalbody:
                stmt(b, handled_label)
            return
        if isinstance(s, ast.Return):
            if isinstance(s.value, ast.Name) and s.value.id in env["val_vars"]:
                prog.emit("return_val")
                return
            raise Unsupported(f"return of something else than the unfolded value: {ast.unparse(s)}")
        if isinstance(s, (ast.Import, ast.ImportFrom, ast.Pass)):
            return
        raise Unsupported(f"statement not understood: {ast.unparse(s)[:120]}")

    for s in fdef.body:
        stmt(s)
    prog.emit("fall_off_end")
    # resolve handler labels
    resolved = []
    for op in prog.ops:
        if op[0] in ("load_return", "load_assign", "open_r") and len(op) > 1 and isinstance(op[1], tuple):
            resolved.append((op[0], prog.ops[op[1][1]][1]))
        else:
            resolved.append(op)
    prog.ops = resolved
    return prog
