"""E1: SymPy expression DAG -> values of vf.core (z3 terms).  DESIGN.md section 2."""

from __future__ import annotations

from fractions import Fraction

import sympy as sp
import z3
from sympy.core.function import AppliedUndef
from sympy.physics.quantum.cg import CG
from sympy.physics.quantum.spin import Rotation, WignerD

from .core import B1, ZERO, Ctx, Unsupported, V, ite, to_z3


def _frac(x) -> Fraction:
    if isinstance(x, sp.Rational):
        return Fraction(int(x.p), int(x.q))
    if isinstance(x, sp.Float):
        return Fraction(str(x)) if "e" not in str(x).lower() else Fraction(float(x)).limit_denominator(10**15)
    raise Unsupported(f"not a rational: {x!r}")


class Translator:
    """Translate SymPy expressions produced by /repo code into `V` values.

    Parameters
    ----------
    symbol_values: explicit mapping Symbol/Indexed -> V (takes precedence)
    complex_symbols: predicate or set of names translated to a (re, im) pair
    unit_symbols: names of symbols whose exp(i*x) is an opaque unit number (c + i s)
        instead of the t-parametrisation (for symbols that also occur polynomially)
    uf_functions: names of sympy functions (log, atan, ...) translated as uninterpreted
    use_assumptions: turn sympy `positive/nonnegative/negative` symbol assumptions into domain constraints
    """

    def __init__(
        self,
        ctx: Ctx,
        *,
        symbol_values: dict | None = None,
        complex_symbols=None,
        unit_symbols=(),
        uf_functions=(),
        use_assumptions: bool = True,
        indexed_complex: bool = True,
        unfold=True,
        branch_by_solver: bool = False,
        name_classes=(),
        opaque_classes=(),
        uf_classes=(),
        opaque_real=False,
    ):
        self.uf_classes = set(uf_classes)
        self.opaque_real = opaque_real
        self.branch_by_solver = branch_by_solver
        self.name_classes = set(name_classes)
        self.opaque_classes = set(opaque_classes)
        self.named: dict = {}
        self.ctx = ctx
        self.symbol_values = dict(symbol_values or {})
        self.complex_symbols = complex_symbols
        self.unit_symbols = set(unit_symbols)
        self.uf_functions = set(uf_functions)
        self.use_assumptions = use_assumptions
        self.indexed_complex = indexed_complex
        self.unfold = unfold
        self.memo: dict = {}
        self.node_types: dict[str, int] = {}
        self.symbols_seen: dict[str, sp.Basic] = {}

    # ------------------------------------------------------------------ entry
    def __call__(self, expr) -> V:
        return self.tr(sp.sympify(expr))

    def tr(self, e) -> V:
        hit = self.memo.get(e)
        if hit is not None:
            return hit
        name = type(e).__name__
        self.node_types[name] = self.node_types.get(name, 0) + 1
        out = self._tr(e)
        self.memo[e] = out
        return out

    # ------------------------------------------------------------------ symbols
    def _is_complex_symbol(self, s) -> bool:
        cs = self.complex_symbols
        if cs is None:
            return s.is_real is False or (s.is_complex and s.is_real is None and False)
        if callable(cs):
            return bool(cs(s))
        return s.name in cs or s in cs

    def symbol(self, s) -> V:
        if s in self.symbol_values:
            return self.symbol_values[s]
        ctx = self.ctx
        name = str(s)
        self.symbols_seen[name] = s
        if isinstance(s, sp.Indexed) and self.indexed_complex and not s.is_extended_real:
            v = ctx.cvar(name)
        elif self._is_complex_symbol(s):
            v = ctx.cvar(name)
        else:
            new = name not in ctx.vars
            v = ctx.var(name)
            if new and self.use_assumptions:
                z = ctx.vars[name]
                if s.is_positive:
                    ctx.assume(z > 0)
                    ctx.mark_positive(z)
                elif s.is_nonnegative:
                    ctx.assume(z >= 0)
                elif s.is_negative:
                    ctx.assume(z < 0)
                elif s.is_nonpositive:
                    ctx.assume(z <= 0)
                if s.is_integer:
                    raise Unsupported(f"free integer symbol {s}")
        self.symbol_values[s] = v
        return v

    # ------------------------------------------------------------------ angles
    def _unit_exp(self, arg) -> V:
        """e^{i*arg} for arg a half-integer linear combination of angle symbols (+ k*pi/2)."""
        ctx = self.ctx
        arg = sp.expand(arg)
        out = ctx.const(1)
        coeffs = arg.as_coefficients_dict()
        for term, coeff in coeffs.items():
            if coeff.has(sp.I) or not coeff.is_Rational:
                raise Unsupported(f"angle coefficient {coeff} in {arg}")
            c = _frac(coeff)
            if term == 1:
                if c != 0:
                    if c.denominator != 1:
                        raise Unsupported(f"non-integer numeric constant inside trig: {arg}")
                    k = int(c)  # e^{i k}: opaque unit number e^{i*1} to the k-th power
                    base = ctx.unit_atom("const1")
                    out = out * (base if k > 0 else base.conjugate()) ** abs(k)
                continue
            if term == sp.pi:
                k = 2 * c
                if k.denominator != 1:
                    raise Unsupported(f"pi multiple {c}")
                out = out * (ctx.I() ** (int(k) % 4))
                continue
            if isinstance(term, (sp.Symbol, sp.Indexed)):
                name = str(term)
                self.symbols_seen[name] = term
                if term in self.symbol_values and isinstance(self.symbol_values[term], Angle):
                    ang = self.symbol_values[term]
                    if c.denominator != 1:
                        raise Unsupported("half multiple of an opaque angle")
                    k = int(c)
                    base = ang.unit if k > 0 else ang.unit.conjugate()
                    out = out * base ** abs(k)
                    continue
                mapped = self.symbol_values.get(term)
                if isinstance(mapped, V) and set(mapped.c) == {B1} and not mapped.den:
                    zt = mapped.c[B1][0]
                    if not isinstance(zt, Fraction) and z3.is_const(zt) and zt.decl().kind() == z3.Z3_OP_UNINTERPRETED:
                        name = str(zt)  # the angle is the solver variable this symbol is mapped to (renamings)
                if name in self.unit_symbols:
                    if c.denominator != 1:
                        raise Unsupported(f"non-integer multiple of unit symbol {name}")
                    k = int(c)
                    base = ctx.unit_atom(name)
                else:
                    k2 = 2 * c
                    if k2.denominator != 1:
                        raise Unsupported(f"angle multiple {c} of {name} is not a half-integer")
                    k = int(k2)
                    base = ctx.half_angle_exp(name)
                if k < 0:
                    base, k = base.conjugate(), -k
                out = out * base**k
                continue
            raise Unsupported(f"non-linear angle argument {arg}")
        return out

    # ------------------------------------------------------------------ relations
    def cond(self, c):
        if c is sp.true or c is True:
            return z3.BoolVal(True)
        if c is sp.false or c is False:
            return z3.BoolVal(False)
        if isinstance(c, sp.And):
            return z3.And(*[self.cond(a) for a in c.args])
        if isinstance(c, sp.Or):
            return z3.Or(*[self.cond(a) for a in c.args])
        if isinstance(c, sp.Not):
            return z3.Not(self.cond(c.args[0]))
        if isinstance(c, sp.core.relational.Relational):
            lhs, rhs = self.tr(c.lhs), self.tr(c.rhs)
            if isinstance(c, sp.Eq):
                comps = lhs.eq_components(rhs)
                return z3.And(*[t == 0 for _, t in comps]) if comps else z3.BoolVal(True)
            if isinstance(c, sp.Ne):
                comps = lhs.eq_components(rhs)
                return z3.Or(*[t != 0 for _, t in comps]) if comps else z3.BoolVal(False)
            op = {sp.StrictGreaterThan: "gt", sp.GreaterThan: "ge", sp.StrictLessThan: "lt", sp.LessThan: "le"}[
                type(c)
            ]
            return getattr(lhs, op)(rhs)
        raise Unsupported(f"condition {c!r}")

    # ------------------------------------------------------------------ nodes
    def _tr(self, e) -> V:  # noqa: C901, PLR0911, PLR0912
        ctx = self.ctx
        if e in self.symbol_values:
            v = self.symbol_values[e]
            if isinstance(v, Angle):
                raise Unsupported(f"opaque angle {e} used outside a trigonometric function")
            return v
        if isinstance(e, (sp.Integer, sp.Rational)):
            return ctx.const(_frac(e))
        if isinstance(e, sp.Float):
            return ctx.const(_frac(e))
        if e is sp.I:
            return ctx.I()
        if e is sp.pi:
            v = ctx.var("pi")
            z = ctx.vars["pi"]
            ctx.assume(z3.And(z > 3, z < 4))
            ctx.mark_positive(z)
            return v
        if isinstance(e, (sp.Symbol, sp.Indexed)):
            return self.symbol(e)
        if isinstance(e, sp.Add):
            out = self.tr(e.args[0])
            for a in e.args[1:]:
                out = out + self.tr(a)
            return out
        if isinstance(e, sp.Mul):
            out = self.tr(e.args[0])
            for a in e.args[1:]:
                out = out * self.tr(a)
            return out
        if isinstance(e, sp.Pow):
            base, expo = e.args
            if base is sp.E:
                return self._exp(expo)
            if not expo.is_Rational:
                raise Unsupported(f"exponent {expo}")
            q = _frac(expo)
            if isinstance(base, sp.Abs) and q.denominator == 1 and q.numerator % 2 == 0:
                return self.tr(base.args[0]).abs2() ** (q / 2)
            if q.denominator == 1:
                return self.tr(base) ** q
            if q.denominator in (2, 4, 8):
                b = self.tr(base)
                d = q.denominator
                while d > 1:
                    if not b.is_real():
                        raise Unsupported(f"sqrt of a complex value: {base}")
                    b = b.sqrt()
                    d //= 2
                return b ** q.numerator
            raise Unsupported(f"power {q}")
        if isinstance(e, sp.exp):
            return self._exp(e.args[0])
        if isinstance(e, sp.cos):
            u = self._unit_exp(e.args[0])
            return (u + u.conjugate()) * ctx.const(Fraction(1, 2))
        if isinstance(e, sp.sin):
            u = self._unit_exp(e.args[0])
            return (u - u.conjugate()) * ctx.const(Fraction(1, 2)) * (-1) * ctx.I()
        if isinstance(e, sp.Abs):
            inner = self.tr(e.args[0])
            if self.branch_by_solver and inner.is_real() and inner.as_fraction() is None:
                from .core import implied

                if implied(ctx, inner.ge(0)):
                    return inner
                if implied(ctx, inner.le(0)):
                    return -inner
            return inner.abs()
        if isinstance(e, sp.conjugate):
            return self.tr(e.args[0]).conjugate()
        if isinstance(e, sp.re):
            return self.tr(e.args[0]).real_part()
        if isinstance(e, sp.im):
            return self.tr(e.args[0]).imag_part()
        if isinstance(e, sp.Piecewise):
            pieces = list(e.args)
            last_expr, last_cond = pieces[-1]
            if last_cond is not sp.true:
                # value undefined outside; treat as nan -> Unsupported unless conditions cover
                raise Unsupported("Piecewise without a default branch")
            if self.branch_by_solver:
                from .core import implied

                remaining = []
                for ex, c in pieces:
                    zc = self.cond(c)
                    if implied(ctx, zc):
                        remaining.append((ex, None))
                        break
                    if implied(ctx, z3.Not(zc)):
                        continue
                    remaining.append((ex, zc))
                out = self.tr(remaining[-1][0])
                for ex, zc in reversed(remaining[:-1]):
                    out = ite(zc, self.tr(ex), out)
                return out
            out = self.tr(last_expr)
            for ex, c in reversed(pieces[:-1]):
                out = ite(self.cond(c), self.tr(ex), out)
            return out
        if isinstance(e, sp.Sum):
            return self._unroll_sum(e)
        if isinstance(e, (WignerD, Rotation, CG)):
            return self.tr(e.doit())
        if isinstance(e, sp.log) and "log" in self.uf_functions:
            return self._log(e)
        if isinstance(e, sp.atan) and "atan" in self.uf_functions:
            return self.uf_apply("atan", [self.tr(e.args[0])])
        if isinstance(e, sp.atan2) and "atan" in self.uf_functions:
            from .core import implied

            y, x = self.tr(e.args[0]), self.tr(e.args[1])
            if x.is_real() and y.is_real() and (x.as_fraction() or 0) > 0 or implied(ctx, x.gt(0)):
                return self.uf_apply("atan", [y / x])  # atan2(y, x) = atan(y/x) for x > 0
            raise Unsupported("atan2 with a denominator not proven positive")
        if isinstance(e, AppliedUndef) or (isinstance(e, sp.Function) and type(e).__name__ in self.uf_functions):
            return self._uf(e)
        clsname = type(e).__name__
        if isinstance(e, sp.factorial) and e.args[0].is_Integer:
            return ctx.const(int(sp.factorial(int(e.args[0]))))
        if clsname in self.uf_classes:
            # uninterpreted function of the translated SymPy arguments (plus the non-SymPy attributes in its name)
            extra = ""
            try:
                import dataclasses

                extra = ",".join(f"{f.name}={getattr(e, f.name, None)!r}" for f in dataclasses.fields(e) if getattr(e, f.name, None) not in e.args)
            except TypeError:
                pass
            re_ = self.uf_apply(f"{clsname}[{extra}].re", [self.tr(a) for a in e.args], e)
            im_ = self.uf_apply(f"{clsname}[{extra}].im", [self.tr(a) for a in e.args], e)
            return re_ + self.ctx.I() * im_
        if clsname in self.opaque_classes:
            return self._opaque_node(e)
        if clsname in self.name_classes:
            return self._named_node(e)
        if clsname == "ComplexSqrt":
            b = self.tr(e.args[0])
            if not b.is_real():
                raise Unsupported("ComplexSqrt of a complex value")
            q = b.as_fraction()
            if q is not None:
                return ctx.sqrt_rational(q)
            if self.branch_by_solver:
                from .core import implied

                if implied(ctx, b.ge(0)):
                    return b.sqrt()
                if implied(ctx, b.le(0)):
                    return (-b).sqrt() * ctx.I()
            return b.sqrt(complex_branch=True)
        if self.unfold and hasattr(e, "evaluate") and callable(e.evaluate):
            return self.tr(e.evaluate())
        if self.unfold and hasattr(e, "doit") and not isinstance(e, (sp.Function,)):
            d = e.doit(deep=False)
            if d != e:
                return self.tr(d)
        raise Unsupported(f"node type {clsname}: {str(e)[:80]}")

    def _unroll_sum(self, e) -> V:
        """Unroll a Sum with concrete integer limits without unfolding the summand."""
        import itertools as _it

        summand, *limits = e.args
        ranges = []
        for lim in limits:
            idx, lo, hi = lim
            if not (lo.is_Integer and hi.is_Integer):
                raise Unsupported(f"symbolic summation limits {lim}")
            ranges.append([(idx, sp.Integer(k)) for k in range(int(lo), int(hi) + 1)])
        out = self.ctx.const(0)
        for combo in _it.product(*ranges):
            out = out + self.tr(summand.xreplace(dict(combo)))
        return out

    def _opaque_node(self, e) -> V:
        """A node whose semantics is not encoded: one fresh complex variable per structurally
        distinct node (over-approximation: sound for proving equalities)."""
        table = self.ctx.__dict__.setdefault("opaque_nodes", {})
        hit = table.get(e)
        if hit is None:
            k = len(table)
            nm = f"opaque{k}:{type(e).__name__}"
            hit = self.ctx.var(nm) if self.opaque_real else self.ctx.cvar(nm)
            table[e] = hit
        return hit

    def _named_node(self, e) -> V:
        """Give the (real) value of an unevaluated node its own solver variable v with
        v*den == num, and record sign lemmas that the solver proves from the domain."""
        from .core import implied, is_const

        ctx = self.ctx
        val = self.tr(e.evaluate() if hasattr(e, "evaluate") else e.doit(deep=False))
        if val.as_fraction() is not None:
            return val
        num, den = val.single_real()
        v = ctx.fresh(type(e).__name__)
        ctx.var_meta[str(v)]["derived"] = True
        ctx.assume(v * to_z3(val._den_term(den)) == to_z3(num))
        self.named[str(v)] = str(e)
        if implied(ctx, v > 0):
            ctx.assume(v > 0)
            ctx.mark_positive(v)
        elif implied(ctx, v >= 0):
            ctx.assume(v >= 0)
        elif implied(ctx, v < 0):
            ctx.assume(v < 0)
        return V(ctx, {B1: (v, ZERO)})

    def _exp(self, arg) -> V:
        arg = sp.expand(arg)
        if arg == 0:
            return self.ctx.const(1)
        coeff = sp.expand(arg / sp.I)
        if coeff.has(sp.I):
            raise Unsupported(f"exp of a non-imaginary argument {arg}")
        return self._unit_exp(coeff)

    def _uf(self, e) -> V:
        name = e.func.__name__ if hasattr(e.func, "__name__") else str(e.func)
        return self.uf_apply(name, [self.tr(a) for a in e.args], e)

    def uf_apply(self, name: str, args: list, expr=None, axioms=()) -> V:
        """Uninterpreted real function applied to real values, Ackermannised: one fresh real
        variable per distinct argument tuple plus functional-consistency constraints (args
        equal => values equal; compared fraction-free).  Keeps queries inside pure NRA.
        axioms: 'reciprocal-negates' adds  a*b == 1 => f(a) == -f(b)  (log)."""
        ctx = self.ctx
        nd = []
        flat = []
        for a in args:
            if a.is_real():
                flat.append(a)
            else:  # a complex argument enters as its real and imaginary part
                flat += [a.real_part(), a.imag_part()]
        for a in flat:
            n, den = a.single_real()
            nd.append((to_z3(n), to_z3(a._den_term(den))))
        from .core import _dag_size

        keep = ctx.__dict__.setdefault("_keepalive", [])

        def canon(t):  # sum-of-monomials normal form: polynomially equal arguments get the same key
            if _dag_size(t, 300) < 300:
                try:
                    t = z3.simplify(t, som=True, sort_sums=True)
                except z3.Z3Exception:
                    pass
            keep.append(t)
            return t.get_id()

        key = (name, tuple((canon(n), canon(d)) for n, d in nd))
        apps = ctx.__dict__.setdefault("uf_apps", {})
        hit = apps.get(key)
        if hit is None and len(apps) < 80:
            # an existing application whose arguments are equal as fractions (n1*d2 - n2*d1 == 0 identically,
            # by z3's polynomial normal form) denotes the same value
            for (n2_, _), (v2, nd2) in apps.items():
                if n2_ != name or len(nd2) != len(nd):
                    continue
                same = True
                for (a0, a1), (b0, b1) in zip(nd, nd2):
                    diff = a0 * b1 - b0 * a1
                    if _dag_size(diff, 600) >= 600:
                        same = False
                        break
                    sd = z3.simplify(diff, som=True)
                    if not (z3.is_rational_value(sd) and sd.numerator_as_long() == 0):
                        same = False
                        break
                if same:
                    hit = apps[key] = (v2, nd2)
                    break
        if hit is None:
            v = ctx.fresh(f"uf[{name}]")
            for (n2, _), (v2, nd2) in apps.items():
                if n2 == name and len(nd2) == len(nd):
                    same = z3.And(*[a[0] * b[1] == b[0] * a[1] for a, b in zip(nd, nd2)]) if nd else z3.BoolVal(True)
                    ctx.assume(z3.Implies(same, v == v2))
                    if "reciprocal-negates" in axioms and len(nd) == 1:
                        (a0, a1), (b0, b1) = nd[0], nd2[0]
                        ctx.assume(z3.Implies(a0 * b0 == a1 * b1, v == -v2))
            apps[key] = (v, nd)
            if expr is not None:
                ctx.__dict__.setdefault("uf_exprs", {})[str(v)] = expr
            hit = apps[key]
        return V(ctx, {B1: (hit[0], ZERO)})

    def _log(self, e) -> V:
        """Principal-branch log with an uninterpreted real log L on positive reals:
        real x: log x = L(x) (x>0), L(-x) + i*pi (x<0);  unit-modulus z = x+iy (x > -1):
        log z = i*2*atan(y/(1+x)) with an uninterpreted atan.  |z| = 1 and x > -1 are side obligations."""
        from .core import implied

        ctx = self.ctx
        x = self.tr(e.args[0])
        pi = self.tr(sp.pi)
        if x.is_real():
            pos = self.uf_apply("log", [x], axioms=("reciprocal-negates",))
            if self.branch_by_solver and implied(ctx, x.gt(0)):
                return pos
            neg = self.uf_apply("log", [-x], axioms=("reciprocal-negates",)) + ctx.I() * pi
            if self.branch_by_solver and implied(ctx, x.lt(0)):
                return neg
            return ite(x.gt(0), pos, neg)
        re, im = x.real_part(), x.imag_part()
        for _, t in (re * re + im * im).eq_components(ctx.const(1)):
            ctx.require("log of a complex number: |z| == 1", t == 0)
        ctx.require("log of a complex number: Re z > -1", (re + 1).gt(0))
        theta_half = self.uf_apply("atan", [im / (re + 1)])
        return ctx.I() * 2 * theta_half


class Angle:
    """Opaque angle known only through its unit number e^{i angle} (a V)."""

    def __init__(self, unit: V):
        self.unit = unit

    def __neg__(self):
        return Angle(self.unit.conjugate())

    def cos(self):
        return self.unit.real_part()

    def sin(self):
        return self.unit.imag_part()


def model_to_assignment(ctx: Ctx, model) -> dict:
    """z3 model -> {variable name: Fraction} (algebraic numbers are approximated)."""
    out = {}
    for name, var in ctx.vars.items():
        val = model.eval(var, model_completion=True)
        out[name] = _z3_to_fraction(val)
    return out


def _z3_to_fraction(val) -> Fraction:
    if z3.is_rational_value(val):
        return Fraction(val.numerator_as_long(), val.denominator_as_long())
    if z3.is_algebraic_value(val):
        a = val.approx(30)
        return Fraction(a.numerator_as_long(), a.denominator_as_long())
    s = str(val)
    try:
        return Fraction(s)
    except ValueError:
        return Fraction(float(s.rstrip("?")))
