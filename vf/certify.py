"""E4: untrusted algebraic hints (SymPy factorisations) turned into solver lemmas."""

from __future__ import annotations

import sympy as sp
import z3

from .core import Ctx
from .solve import Obligation, identity_obligations


def sign_via_common_factor(ctx: Ctx, tr, P: sp.Expr, K: sp.Expr, label: str, *, want: str = ">=0", K_sign: str = "<0"):
    """Obligations proving sign(P) on the domain from the known sign of K, when P and K share a factor.

    SymPy proposes K = a*G and P = b*G (factor_list).  Lemmas (all decided by the solver):
      L1  K == a*G      L2  P == b*G      (polynomial identities)
      L3  sign of a, sign of b on the domain
      L4  with K, G, P, a, b opaque:  K == a G, P == b G, signs  |-  P `want`
    Returns (obligations, info) or (None, reason) when no usable hint exists.
    """
    Pn, Kn = sp.expand(P), sp.expand(K)
    cK, fK = sp.factor_list(Kn)
    cP, fP = sp.factor_list(Pn)
    shared = None
    for f, e in fK:
        for g, e2 in fP:
            if e % 2 == 1 and e2 % 2 == 1 and (sp.expand(f - g) == 0 or sp.expand(f + g) == 0) and len(f.free_symbols) > 1:
                shared = f
    if shared is None:
        return None, "no shared odd factor"
    G = shared
    a = sp.cancel(Kn / G)
    b = sp.cancel(Pn / G)
    if not (a.is_polynomial() and b.is_polynomial()):
        return None, "cofactors not polynomial"
    VG, Va, Vb = tr(G), tr(a), tr(b)
    obs = []
    obs += identity_obligations(f"{label} [lemma L1: K == a*G]", tr(Kn), Va * VG)
    obs += identity_obligations(f"{label} [lemma L2: P == b*G]", tr(Pn), Vb * VG)
    # signs of cofactors: decide which sign holds (solver), record as lemma
    from .core import implied

    def sign_of(v):
        for s, cond in ((">0", v.gt(0)), ("<0", v.lt(0)), (">=0", v.ge(0)), ("<=0", v.le(0))):
            if implied(ctx, cond, 20000):
                return s, cond
        return None, None

    sa, conda = sign_of(Va)
    sb, condb = sign_of(Vb)
    if sa is None or sb is None:
        return None, f"cofactor sign undecided (a: {sa}, b: {sb})"
    obs.append(Obligation(f"{label} [lemma L3a: a {sa}]", conda, "lemma"))
    obs.append(Obligation(f"{label} [lemma L3b: b {sb}]", condb, "lemma"))
    # final step over opaque reals
    k, g, p, av, bv = (z3.Real(f"opaque_{n}") for n in "KGPab")

    def cmp(t, s):
        return {">0": t > 0, "<0": t < 0, ">=0": t >= 0, "<=0": t <= 0}[s]

    hyp = z3.And(k == av * g, p == bv * g, cmp(av, sa), cmp(bv, sb), cmp(k, K_sign))
    obs.append(Obligation(f"{label} [final: lemmas |- P {want}]", z3.Implies(hyp, cmp(p, want)), "lemma"))
    return obs, {"G": str(G)[:120], "a": str(a)[:80], "b": str(b)[:80], "sign_a": sa, "sign_b": sb}
