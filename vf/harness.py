"""Check driver: tiers, parallel configurations, verdict policy, evidence, known findings."""

from __future__ import annotations

import argparse
import hashlib
import inspect
import json
import multiprocessing as mp
import os
import sys
import time
import traceback
from pathlib import Path

from .solve import Result

VERIF = Path(__file__).resolve().parent.parent
EVIDENCE = Path(os.environ.get("VERIF_EVIDENCE_DIR") or VERIF / "evidence")
REPLAYS = Path(os.environ.get("VERIF_REPLAY_DIR") or VERIF / "replays")
KNOWN = VERIF / "known_findings.json"

EXIT_OK, EXIT_VIOLATION, EXIT_INCONCLUSIVE, EXIT_HARNESS = 0, 1, 2, 3


def load_known(pid: str) -> dict:
    if not KNOWN.exists():
        return {}
    data = json.loads(KNOWN.read_text())
    return {e["selector"]: e for e in data.get("findings", []) if e["property"] == pid and e.get("kind") == "known"}


def source_fingerprint(objs) -> list[dict]:
    out = []
    for o in objs:
        try:
            src = inspect.getsource(o)
            name = getattr(o, "__module__", "") + "." + getattr(o, "__qualname__", getattr(o, "__name__", str(o)))
            if inspect.ismodule(o):
                name = o.__name__
            out.append({"function": name, "sha256": hashlib.sha256(src.encode()).hexdigest()[:16]})
        except (OSError, TypeError):
            out.append({"function": str(o), "sha256": None})
    return out


class _ConfigTimeout(BaseException):
    pass


def _on_alarm(signum, frame):
    raise _ConfigTimeout()


def _worker(args):
    import signal

    fn, config, tier, seed = args
    sys.setrecursionlimit(50000)
    t0 = time.time()
    limit = int(os.environ.get("VERIF_CONFIG_TIMEOUT", "0") or 0) or (config.get("config_timeout") if isinstance(config, dict) else None) or 420
    try:
        signal.signal(signal.SIGALRM, _on_alarm)
        signal.alarm(int(limit))
    except ValueError:
        pass
    try:
        try:
            res = fn(config, tier, seed)
        except _ConfigTimeout:
            name = config.get("name") if isinstance(config, dict) else str(config)
            res = [Result(name="configuration time limit", kind="identity", status="unknown", config=name, seconds=time.time() - t0,
                          detail=f"not decided within {limit}s")]  # fmt: skip
        finally:
            signal.alarm(0)
        return [r.as_dict() if isinstance(r, Result) else r for r in res], time.time() - t0, None
    except BaseException as exc:  # noqa: BLE001
        if isinstance(exc, (KeyboardInterrupt, SystemExit)):
            raise
        return [], time.time() - t0, f"{config!r}: {type(exc).__name__}: {exc}\n{traceback.format_exc()}"


class Check:
    """One property check.  Subclasses/clients provide `configs(tier)` and a module-level worker."""

    def __init__(self, pid: str, description: str):
        self.pid = pid
        self.description = description
        ap = argparse.ArgumentParser(description=description)
        ap.add_argument("--tier", default=os.environ.get("VERIF_TIER", "quick"), choices=["quick", "thorough"])
        ap.add_argument("--replay", default=None)
        ap.add_argument("--procs", type=int, default=int(os.environ.get("VERIF_PROCS", "16")))
        ap.add_argument("--only", default=None, help="substring filter on configurations (debugging)")
        self.args = ap.parse_args()
        self.tier = self.args.tier
        self.seed = int(os.environ.get("VERIF_SEED", "0") or 0)
        self.t0 = time.time()
        self.records: list[dict] = []
        self.errors: list[str] = []
        self.config_times: dict[str, float] = {}

    replay_selector = None

    @staticmethod
    def config_name(c) -> str:
        return c if isinstance(c, str) else (c.get("name") if isinstance(c, dict) else str(c))

    # ------------------------------------------------------------------ running
    def run(self, worker, configs: list, *, chunksize: int = 1):
        if self.args.replay:
            rec = json.loads(Path(self.args.replay).read_text())
            self.replay_selector = rec["selector"]
            configs = [c for c in configs if self.config_name(c) == rec["record"]["config"]]
            print(f"replaying {self.replay_selector}: re-deriving on the current tree ({len(configs)} configuration)")
        if self.args.only:
            configs = [c for c in configs if self.args.only in repr(c)]
        jobs = [(worker, c, self.tier, self.seed) for c in configs]
        procs = max(1, min(self.args.procs, len(jobs)))
        if procs == 1:
            results = map(_worker, jobs)
        else:
            ctx = mp.get_context("fork")
            pool = ctx.Pool(procs, maxtasksperchild=8)
            results = self._watched(pool, pool.imap_unordered(_worker, jobs, chunksize), configs)
        for recs, secs, err in results:
            self.records.extend(recs)
            if recs:
                self.config_times[recs[0].get("config", "?")] = round(secs, 1)
            if err:
                self.errors.append(err)
        if procs > 1:
            pool.close()
            pool.join()
        return self.records

    def _watched(self, pool, it, configs):
        """A pool worker that is killed from outside (the kernel's OOM killer on a z3 blow-up) loses its task and
        `imap_unordered` then waits for ever. Every configuration is bounded by its own time limit plus one solver
        call, so a gap between two results longer than that means a task was lost: stop, report a harness error
        (exit 3, no verdict) instead of hanging."""
        limits = [int(os.environ.get("VERIF_CONFIG_TIMEOUT", "0") or 0) or (c.get("config_timeout") if isinstance(c, dict) else None) or 420 for c in configs]
        window = int(os.environ.get("VERIF_LOST_WORKER_WINDOW", "0") or 0) or max(limits, default=420) + 900
        seen = 0
        while True:
            try:
                item = it.next(timeout=window)
            except StopIteration:
                return
            except mp.TimeoutError:
                self.errors.append(f"no result for {window}s with {len(configs) - seen} configuration(s) outstanding: a worker process was lost "
                                   "(killed, e.g. out of memory); no verdict for the outstanding configurations")  # fmt: skip
                pool.terminate()
                return
            seen += 1
            yield item

    # ------------------------------------------------------------------ verdict
    def finish(
        self,
        *,
        level: str = "other",
        functions=(),
        bounds: dict | None = None,
        assumptions: list[str] | None = None,
        explanation: str = "",
        extra_coverage: dict | None = None,
        outside: list[str] | None = None,
    ):
        known = load_known(self.pid)
        recs = self.records
        solver_recs = [r for r in recs if r["kind"] not in ("ground", "twin")]
        twins = [r for r in recs if r["kind"] == "twin"]
        ground = [r for r in recs if r["kind"] == "ground"]
        violations, known_hits, inconclusive, harness_errors = [], [], [], list(self.errors)
        for r in recs:
            st = r["status"]
            if r["kind"] == "twin":
                if st != "sat":
                    harness_errors.append(f"vacuity twin not sat ({st}) for {r['config']}")
                continue
            if st in ("unsat", "ok"):
                continue
            if st in ("unknown", "timeout"):
                inconclusive.append(r)
                continue
            if st in ("sat", "fail"):
                rep = r.get("replay") or {}
                if not rep.get("reproduced"):
                    harness_errors.append(
                        f"counterexample not reproduced on real code: {r['config']} {r['name']} {rep}"
                    )
                    continue
                sel = r.get("selector") or f"{r['config']}::{r['name']}"
                if sel in known:
                    known_hits.append((sel, known[sel], r))
                else:
                    violations.append((sel, r))
                continue
            harness_errors.append(f"unexpected status {st}: {r['config']} {r['name']} {r.get('detail', '')}")

        xc = cross_check(recs) if os.environ.get("VERIF_CROSSCHECK", "1") != "0" else {"queries": 0, "solvers": {}, "disagreements": []}
        harness_errors += [f"solver cross-check: {x}" for x in xc["disagreements"]]

        # ---- output lines
        seen_known = set()
        for sel, entry, r in known_hits:
            if sel in seen_known:
                continue
            seen_known.add(sel)
            print(f"KNOWN-FINDING: property={self.pid} {entry.get('what', sel)} [{sel}]")
        REPLAYS.mkdir(exist_ok=True)
        for n, (sel, r) in enumerate(violations):
            path = REPLAYS / f"{self.pid}_{hashlib.sha256(sel.encode()).hexdigest()[:10]}.json"
            path.write_text(json.dumps({"property": self.pid, "selector": sel, "record": r}, indent=1, default=str))
            print(f"VIOLATION property={self.pid} replay={path}")
            print(f"  selector: {sel}")
            print(f"  detail: {json.dumps(r.get('replay'), default=str)[:600]}")
        for r in inconclusive:
            print(f"INCONCLUSIVE property={self.pid} {r['config']} {r['name']} ({r['status']}, {r['seconds']:.1f}s) {r.get('detail', '')[:300]}")
        for e in harness_errors:
            print(f"HARNESS-ERROR property={self.pid} {e}", file=sys.stderr)

        # ---- evidence
        wall = time.time() - self.t0
        n_ob = len(solver_recs)
        n_dis = sum(1 for r in solver_recs if r["status"] == "unsat")
        configs = sorted({r["config"] for r in recs})
        samples = []
        for r in recs:
            if r.get("smt2") and len(samples) < 3:
                samples.append(
                    {"config": r["config"], "obligation": r["name"], "status": r["status"], "smt2": r["smt2"][:6000]}
                )
        if not samples:
            samples = [{"config": r["config"], "obligation": r["name"], "status": r["status"]} for r in recs[:3]]
        solver_seconds = sum(r["seconds"] for r in solver_recs)
        coverage = {
            "explanation": explanation or self.description,
            "functions_encoded": source_fingerprint(functions),
            "bounds": bounds or {},
            "outside_the_claim": outside or [],
            "configurations": len(configs),
            "configuration_list": configs[:200],
            "obligations": n_ob,
            "discharged": n_dis,
            "sat_known_findings": len(known_hits),
            "sat_violations": len(violations),
            "inconclusive": len(inconclusive),
            "vacuity_twins": len(twins),
            "vacuity_twins_sat": sum(1 for r in twins if r["status"] == "sat"),
            "ground_side_checks": len(ground),
            "ground_side_checks_ok": sum(1 for r in ground if r["status"] == "ok"),
            "solver_seconds_total": round(solver_seconds, 3),
            "solver_seconds_max": round(max([r["seconds"] for r in solver_recs] or [0]), 3),
            "solver": "z3 %s (python API)" % _z3_version(),
            "evaluations": n_ob,
            "distinct_nontrivial": len({(r["config"], r["name"]) for r in solver_recs}),
            "rule": "one evaluation = one solver query (negated obligation under the stated domain); distinct by (configuration, obligation name); non-trivial = contains at least one free solver variable",
            "cross_check": {k: v for k, v in xc.items() if k != "disagreements"} | {"disagreements": xc["disagreements"][:10]},
            "samples": samples,
            "per_obligation": [
                {k: r[k] for k in ("config", "name", "kind", "status", "seconds")} for r in recs if r["kind"] != "twin"
            ][:400],
            "harness_errors": harness_errors[:20],
        }
        if extra_coverage:
            coverage.update(extra_coverage)
        ev = {
            "property_id": self.pid,
            "tier": self.tier,
            "seed": self.seed,
            "level": level,
            "coverage": coverage,
            "assumptions": assumptions or [],
            "wall_s": round(wall, 2),
            "violations": len(violations),
        }
        EVIDENCE.mkdir(exist_ok=True)
        (EVIDENCE / f"{self.pid}.json").write_text(json.dumps(ev, indent=1, default=str))
        print(
            f"{self.pid} [{self.tier}] configs={len(configs)} obligations={n_ob} unsat={n_dis} "
            f"known={len(seen_known)} violations={len(violations)} inconclusive={len(inconclusive)} "
            f"ground={len(ground)} errors={len(harness_errors)} wall={wall:.1f}s solver={solver_seconds:.1f}s"
        )
        if os.environ.get("VERIF_TIMES"):
            print("slowest configurations:", sorted(self.config_times.items(), key=lambda kv: -kv[1])[:6])
        if violations:
            sys.exit(EXIT_VIOLATION)
        if harness_errors:
            sys.exit(EXIT_HARNESS)
        if inconclusive:
            sys.exit(EXIT_INCONCLUSIVE)
        if n_ob == 0:
            print("HARNESS-ERROR: no obligations generated", file=sys.stderr)
            sys.exit(EXIT_HARNESS)
        sys.exit(EXIT_OK)


def _sanitise_smt2(text: str) -> str:
    """quoted symbols -> plain v<k> (cvc5 rejects backslashes inside |...|, old z3 some quotes); add (check-sat)"""
    import re

    table: dict = {}

    def sub(m):
        return table.setdefault(m.group(0), f"v{len(table)}_")

    out = re.sub(r"\|[^|]*\|", sub, text)
    if "(check-sat)" not in out:
        out += "\n(check-sat)\n"
    return out


def cross_check(recs: list, limit: int = 40, timeout_s: int = 6) -> dict:
    """Re-decide the recorded SMT-LIB queries with two other solver builds (z3 4.8.12 and cvc5 binaries).
    A definite answer that contradicts the recorded verdict is a harness error; unknown / timeout / parse
    errors are only counted (the verdicts rest on the z3 wheel)."""
    import shutil
    import subprocess
    import tempfile
    from concurrent.futures import ThreadPoolExecutor

    solvers = {}
    if os.path.exists("/usr/bin/z3"):
        solvers["z3-4.8.12"] = lambda p: ["/usr/bin/z3", f"-T:{timeout_s}", p]
    if shutil.which("cvc5"):
        solvers["cvc5-binary"] = lambda p: [shutil.which("cvc5"), f"--tlimit={timeout_s * 1000}", p]
    todo = [r for r in recs if r.get("smt2") and r["status"] in ("unsat", "sat") and len(r["smt2"]) < 400000][:limit]
    stats = {name: {"agree": 0, "disagree": 0, "no_answer": 0} for name in solvers}
    disagreements = []

    def one(r):
        out = {}
        with tempfile.NamedTemporaryFile("w", suffix=".smt2", delete=False) as fh:
            fh.write(_sanitise_smt2(r["smt2"]))
        try:
            for name, cmd in solvers.items():
                try:
                    res = subprocess.run(cmd(fh.name), capture_output=True, text=True, timeout=timeout_s + 5).stdout
                except subprocess.TimeoutExpired:
                    res = "timeout"
                lines = [ln.strip() for ln in res.splitlines() if ln.strip()]
                ans = lines[0] if lines else "no output"
                # any (error line makes the run inconclusive: an old z3 can drop an assertion it cannot parse
                out[name] = "no_answer" if any(ln.startswith("(error") for ln in lines) or ans not in ("sat", "unsat") else ans
        finally:
            os.unlink(fh.name)
        return r, out

    with ThreadPoolExecutor(8) as ex:
        for r, out in ex.map(one, todo):
            for name, ans in out.items():
                if ans == "no_answer":
                    stats[name]["no_answer"] += 1
                elif ans == r["status"]:
                    stats[name]["agree"] += 1
                else:
                    stats[name]["disagree"] += 1
                    disagreements.append(f"{name} says {ans}, recorded {r['status']}: {r['config']} {r['name']}")
    return {"queries": len(todo), "timeout_s": timeout_s, "solvers": stats, "disagreements": disagreements}


def _z3_version():
    import z3

    return z3.get_version_string()
