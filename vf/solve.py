"""Query runner: obligations -> z3 verdicts (with vacuity twins).  DESIGN.md 'Common rules'."""

from __future__ import annotations

import time
from dataclasses import dataclass, field

import z3

from .core import Ctx, atoms_nonzero
from .sym2smt import model_to_assignment


@dataclass
class Result:
    name: str
    kind: str  # identity | inequality | side | twin | ground | lemma
    status: str  # unsat | sat | unknown | error | ok | fail
    seconds: float = 0.0
    assignment: dict | None = None
    detail: str = ""
    smt2: str | None = None
    config: str = ""
    replay: dict | None = None  # {"reproduced": bool, ...}
    selector: str = ""

    def as_dict(self):
        d = dict(self.__dict__)
        if d.get("assignment"):
            d["assignment"] = {k: str(v) for k, v in d["assignment"].items()}
        return d


def _mk_solver(timeout_s: float, tactic: str | None):
    if tactic:
        s = z3.Tactic(tactic).solver()
    else:
        s = z3.Solver()
    s.set("timeout", int(timeout_s * 1000))
    return s


def solve(assumptions: list, negated_goal, *, timeout_s: float = 60.0, tactics=(None, "qfnra-nlsat"), want_smt2=False):
    """Return (status, model, seconds, smt2).  status in unsat/sat/unknown."""
    t0 = time.time()
    smt2 = None
    status, model = "unknown", None
    per = timeout_s / max(1, len(tactics))
    for tac in tactics:
        s = _mk_solver(per, tac)
        try:
            for a in assumptions:
                s.add(a)
            if negated_goal is not None:
                s.add(negated_goal)
            if want_smt2 and smt2 is None:
                smt2 = s.to_smt2()
            r = s.check()
        except z3.Z3Exception as exc:  # tactic not applicable (e.g. UF with nlsat)
            status = "unknown"
            last = str(exc)
            continue
        status = str(r)
        if status == "sat":
            model = s.model()
            break
        if status == "unsat":
            break
    return status, model, time.time() - t0, smt2


@dataclass
class Obligation:
    name: str
    goal: object  # z3 Bool to be valid under assumptions
    kind: str = "identity"
    extra_assumptions: list = field(default_factory=list)
    fallback: object = None  # callable -> list[Obligation]: exact (un-abstracted) form, tried when this one is sat
    n_constraints: int | None = None  # side obligations: prove from the first n constraints/atoms only
    n_atoms: int | None = None


def domain(ctx: Ctx) -> list:
    return list(ctx.constraints) + atoms_nonzero(ctx)


def discharge(
    ctx: Ctx,
    obligations: list[Obligation],
    *,
    config: str = "",
    timeout_s: float = 60.0,
    replay=None,
    twin: bool = True,
    sample_smt2: int = 1,
    tactics=(None, "qfnra-nlsat"),
    hunt_rounds: int = 24,
    hunt_seed: int = 0,
    side_replay=None,
) -> list[Result]:
    """Discharge obligations under ctx's domain; one vacuity twin per call.

    replay: callable(obligation_name, assignment) -> dict(reproduced=bool, ...)
    """
    out: list[Result] = []
    base = domain(ctx)
    # side obligations first, each from the constraints that preceded it; if one fails the
    # auxiliary definitions are unjustified and nothing else is claimed for this context
    side = [ob for ob in obligations if ob.kind == "side"]
    if side:
        side_res = []
        for ob in side:
            b = list(ctx.constraints[: ob.n_constraints]) + atoms_nonzero(ctx, ob.n_atoms)
            st, model, secs, _ = solve(b, z3.Not(ob.goal), timeout_s=timeout_s, tactics=tactics)
            r = Result(name=ob.name, kind="side", status=st, seconds=secs, config=config)
            if st == "sat":
                r.assignment = model_to_assignment(ctx, model)
                fn = side_replay or replay
                if fn is not None:
                    try:
                        r.replay = fn(ob.name, r.assignment)
                    except Exception as exc:  # noqa: BLE001
                        r.replay = {"reproduced": False, "error": f"{type(exc).__name__}: {exc}"}
            side_res.append(r)
        if any(r.status != "unsat" for r in side_res):
            return side_res
        out += side_res
        obligations = [ob for ob in obligations if ob.kind != "side"]
    if twin:
        t0 = time.time()
        wit = ctx.witness(base) if (ctx.gen_square or ctx.gen_square_v) else None
        if wit is not None:
            st, secs = "sat", time.time() - t0
        else:
            st, _, secs, _ = solve(base, None, timeout_s=timeout_s, tactics=tactics)
            if st == "unknown":
                # satisfiability by partial concretisation: with the non-auxiliary variables fixed to rationals the
                # rest (auxiliary roots, Ackermann variables) is easy; a model of the restriction is a model of the domain
                st = "sat" if _twin_by_concretisation(ctx, base) else st
                secs = time.time() - t0
        out.append(
            Result(
                name="vacuity-twin",
                kind="twin",
                status=st,
                seconds=secs,
                config=config,
                detail="domain+auxiliary definitions satisfiable (goal replaced by false must be violated)",
            )
        )
    n_dumped = 0
    for ob in obligations:
        goal = ob.goal
        if z3.is_true(goal):
            # trivially valid after construction-time constant folding: still pass through the solver
            pass
        want = n_dumped < sample_smt2
        st, model, secs, smt2 = solve(
            base + list(ob.extra_assumptions), z3.Not(goal), timeout_s=timeout_s, want_smt2=want, tactics=tactics
        )
        if want and smt2:
            n_dumped += 1
        res = Result(name=ob.name, kind=ob.kind, status=st, seconds=secs, config=config, smt2=smt2 if want else None)
        if st == "unknown" and (ctx.gen_square or ctx.gen_square_v or getattr(ctx, "_points", None)):
            # evaluate at the concrete witness points: a point of the domain where the goal is false is a
            # counterexample of the encoding (then replayed on the real code like any solver model)
            for kpt in range(6):
                try:
                    pairs = ctx._point(kpt)
                    full = base + list(ob.extra_assumptions)
                    if ctx.witness(full, ks=(kpt,)) is None:
                        continue
                    if z3.is_false(z3.simplify(z3.substitute(goal, *pairs))):
                        ms = z3.Solver()
                        for var, val in pairs:
                            ms.add(var == val)
                        if str(ms.check()) == "sat":
                            model = ms.model()
                            st = res.status = "sat"
                            res.detail = "goal false at a concrete witness point (found after solver unknown)"
                            break
                except Exception:  # noqa: BLE001
                    continue
        if st == "unknown" and hunt_rounds:
            t1 = time.time()
            model = hunt(ctx, base + list(ob.extra_assumptions), z3.Not(goal), rounds=hunt_rounds, seed=hunt_seed)
            res.seconds += time.time() - t1
            if model is not None:
                st = res.status = "sat"
                res.detail = "found by partial concretisation after unknown"
        if st == "sat" and ob.fallback is not None:
            # the obligation is an over-approximation (opaque sub-terms): decide the exact form instead
            exact = ob.fallback()
            sub = discharge(
                ctx, exact, config=config, timeout_s=timeout_s, replay=replay, twin=False, sample_smt2=0,
                tactics=tactics, hunt_rounds=hunt_rounds, hunt_seed=hunt_seed,
            )
            for r in sub:
                r.name = f"{ob.name}=>exact:{r.name}"
                r.detail = "abstraction was too coarse or the defect is real; exact form decided"
            out += sub
            continue
        if st == "sat":
            res.assignment = model_to_assignment(ctx, model)
            if replay is not None:
                try:
                    res.replay = replay(ob.name, res.assignment)
                except Exception as exc:  # noqa: BLE001
                    res.replay = {"reproduced": False, "error": f"{type(exc).__name__}: {exc}"}
        out.append(res)
    return out


def _twin_by_concretisation(ctx: Ctx, base: list, samples: int = 300, budget_s: float = 60.0) -> bool:
    import random

    rng = random.Random(7)
    names = [n for n, meta in ctx.var_meta.items() if not meta.get("aux") and not meta.get("derived")]
    if not names:
        return False
    t_end = time.time() + budget_s
    # first: values of the base variables from a model of the small constraints (bounds, thresholds), which z3 finds at once
    from .core import _dag_size, _term_vars

    aux_names = {n for n, meta in ctx.var_meta.items() if meta.get("aux") or meta.get("derived")}
    small = [a for a in base if _dag_size(a, 60) < 60 and not (_term_vars(a) & aux_names)]
    sm = z3.Solver()
    sm.set("timeout", 5000)
    sm.add(*small)
    for _ in range(6):
        if str(sm.check()) != "sat" or time.time() > t_end:
            break
        model = sm.model()
        pairs = []
        for n in names:
            val = model.eval(ctx.vars[n], model_completion=True)
            if not z3.is_rational_value(val):
                pairs = None
                break
            pairs.append((ctx.vars[n], val))
        if pairs:
            rest = [g for g in (z3.simplify(z3.substitute(a, *pairs)) for a in base) if not z3.is_true(g)]
            if not any(z3.is_false(g) for g in rest):
                st, _, _, _ = solve(rest, None, timeout_s=5.0, tactics=("qfnra-nlsat", None))
                if st == "sat":
                    return True
            sm.add(z3.Or(*[v != val for v, val in pairs[:3]]))  # another point
        else:
            break
    for k in range(samples):
        if time.time() > t_end:
            return False
        pairs = []
        for n in names:
            v = ctx.vars[n]
            den = rng.choice([1, 2, 3, 5])
            scale = rng.choice([1, 1, 4, 20])
            lo, hi = (1, 6 * den) if ctx.is_known_positive(v) else (-4 * den, 6 * den)
            pairs.append((v, z3.Q(rng.randint(lo, hi) * scale, den)))
        rest, dead = [], False
        for a in base:
            g = z3.simplify(z3.substitute(a, *pairs))
            if z3.is_false(g):
                dead = True
                break
            if not z3.is_true(g):
                rest.append(g)
        if dead:
            continue
        st, _, _, _ = solve(rest, None, timeout_s=3.0, tactics=("qfnra-nlsat", None))
        if st == "sat":
            return True
    return False


def hunt(ctx: Ctx, base: list, negated_goal, *, rounds: int = 24, seed: int = 0, timeout_s: float = 4.0):
    """Counterexample search after an `unknown`: fix all but one or two non-auxiliary
    variables to random rationals (each fix is kept only if the solver says the domain
    stays satisfiable) and ask the solver for the rest.  Only ever used to turn
    `unknown` into a replayable `sat`; never to conclude that something holds."""
    import random

    rng = random.Random(seed)
    names = [n for n, meta in ctx.var_meta.items() if not meta.get("aux") and not meta.get("derived")]
    if not names:
        return None
    t_end = time.time() + rounds * timeout_s * 2

    def rnd(v, k):
        den = rng.choice([1, 2, 3, 4, 5, 7])
        lo, hi = (1, 6 * den) if ctx.is_known_positive(v) else (-4 * den, 6 * den)
        num = rng.randint(lo, hi)
        if k % 3 == 2:  # occasionally magnitudes well away from 1
            num *= rng.choice([1, 10, 100])
        return z3.Q(num, den)

    for k in range(rounds):
        if time.time() > t_end:
            break
        n_free = 1 + (k % 2)
        free = set(rng.sample(names, min(n_free, len(names))))
        order = [n for n in names if n not in free]
        rng.shuffle(order)
        fixes: list = []
        dom = z3.Solver()
        dom.set("timeout", 1500)
        for a in base:
            dom.add(a)
        for n in order:
            v = ctx.vars[n]
            for _ in range(4):
                cand = v == rnd(v, k)
                dom.push()
                dom.add(cand)
                ok = str(dom.check()) == "sat"
                if ok:
                    fixes.append(cand)
                    break
                dom.pop()
        st, model, _, _ = solve(base + fixes, negated_goal, timeout_s=timeout_s, tactics=("qfnra-nlsat", None))
        if st == "sat":
            return model
    return None


def identity_obligations(name: str, lhs, rhs) -> list[Obligation]:
    """lhs == rhs as one obligation per radical-basis component (re/im)."""
    comps = lhs.eq_components(rhs)
    if not comps:
        return [Obligation(f"{name}", z3.BoolVal(True), "identity")]
    return [Obligation(f"{name}::{label}", term == 0, "identity") for label, term in comps]


def merge_lemma_obligations(ctx: Ctx) -> list[Obligation]:
    """Lemmas justifying merged radical generators: the two radicands are equal."""
    out = []
    for k, (name, a, b) in enumerate(getattr(ctx, "merge_lemmas", [])):
        for ob in identity_obligations(f"[lemma] merged radical {name}#{k}: radicands equal", a, b):
            ob.kind = "lemma"
            out.append(ob)
    return out


def side_obligations(ctx: Ctx) -> list[Obligation]:
    seen = set()
    out = []
    for label, cond, n_c, n_a in ctx.side:
        k = cond.get_id()
        if k in seen:
            continue
        seen.add(k)
        out.append(Obligation(f"side::{label}::{len(out)}", cond, "side", n_constraints=n_c, n_atoms=n_a))
    return out
