"""Independent reference for the helicity formula (C02/C03/C13): own Wigner small-d (Wigner's
factorial sum), own Clebsch-Gordan (Racah's formula), own traversal of qrules transitions.
Angle *symbols* and mass symbols come from ampform's public naming functions, so a consistent
renaming in the library is not an alarm."""

from __future__ import annotations

import itertools
from fractions import Fraction
from math import factorial

import sympy as sp


def F(x) -> Fraction:
    return Fraction(x).limit_denominator(2)


def wigner_small_d(j, m, mp, theta):
    """d^j_{m m'}(theta), Wigner's formula (Wikipedia 'Wigner D-matrix': d^j_{m'm} with m' the FIRST index)."""
    j, m, mp = F(j), F(mp), F(m)  # Wikipedia's (m, m') = (second, first) index
    pref = sp.sqrt(sp.Integer(factorial(int(j + m)) * factorial(int(j - m)) * factorial(int(j + mp)) * factorial(int(j - mp))))
    total = sp.Integer(0)
    c, s = sp.cos(theta / 2), sp.sin(theta / 2)
    for k in range(0, int(2 * j) + 1):
        a, b, c_, d = j + m - k, k, j - k - mp, k - m + mp
        if min(a, b, c_, d) < 0:
            continue
        sign = (-1) ** int(k - m + mp)
        den = factorial(int(a)) * factorial(int(b)) * factorial(int(c_)) * factorial(int(d))
        total += sp.Rational(sign, den) * c ** int(2 * j - 2 * k + m - mp) * s ** int(2 * k - m + mp)
    return pref * total


def wigner_D_conj(j, m, mp, phi, theta):
    """conj D^j_{m m'}(phi, theta, 0) = e^{+i m phi} d^j_{m m'}(theta)"""
    m_ = sp.Rational(F(m).numerator, F(m).denominator)
    return sp.exp(sp.I * m_ * phi) * wigner_small_d(j, m, mp, theta)


def clebsch_gordan(j1, m1, j2, m2, j, m):
    """<j1 m1; j2 m2 | j m>, Racah's formula, exact."""
    j1, m1, j2, m2, j, m = (F(v) for v in (j1, m1, j2, m2, j, m))
    if m1 + m2 != m or not (abs(j1 - j2) <= j <= j1 + j2) or abs(m1) > j1 or abs(m2) > j2 or abs(m) > j:
        return sp.Integer(0)
    if (j1 + j2 + j).denominator != 1:
        return sp.Integer(0)
    f = lambda x: factorial(int(x))  # noqa: E731
    pre = sp.Rational(int(2 * j + 1) * f(j + j1 - j2) * f(j - j1 + j2) * f(j1 + j2 - j), f(j1 + j2 + j + 1))
    pre *= f(j + m) * f(j - m) * f(j1 - m1) * f(j1 + m1) * f(j2 - m2) * f(j2 + m2)
    total = sp.Integer(0)
    for k in range(0, int(j1 + j2 + j) + 1):
        terms = [j1 + j2 - j - k, j1 - m1 - k, j2 + m2 - k, j - j2 + m1 + k, j - j1 - m2 + k]
        if min(terms) < 0:
            continue
        total += sp.Rational((-1) ** k, f(k) * f(terms[0]) * f(terms[1]) * f(terms[2]) * f(terms[3]) * f(terms[4]))
    return sp.sqrt(pre) * total


# --------------------------------------------------------------------------- topology helpers
def attached(topology, edge_id):
    e = topology.edges[edge_id]
    if e.ending_node_id is None:
        return (edge_id,)
    out = []
    for c in sorted(topology.get_edge_ids_outgoing_from_node(e.ending_node_id)):
        out.extend(attached(topology, c))
    return tuple(sorted(out))


def node_decay(topology, node_id):
    """(parent edge, helicity child, opposite-helicity child): helicity child = smaller attached tuple"""
    (parent,) = topology.get_edge_ids_ingoing_to_node(node_id)
    a, b = sorted(topology.get_edge_ids_outgoing_from_node(node_id))
    if attached(topology, a) > attached(topology, b):
        a, b = b, a
    return parent, a, b


def chain_amplitude(transition, *, canonical: bool, lineshape=None):
    """prod over nodes of conj-D(J, m, la-lb; phi, theta) [* CG(L0;S d|J d) CG(sa la; sb -lb|S d)] [* lineshape(node)]"""
    from ampform.helicity.naming import get_helicity_angle_symbols

    topology = transition.topology
    amp = sp.Integer(1)
    for node_id in sorted(topology.nodes):
        parent, a, b = node_decay(topology, node_id)
        sp_, sa, sb = transition.states[parent], transition.states[a], transition.states[b]
        J, m = sp_.particle.spin, sp_.spin_projection
        la, lb = sa.spin_projection, sb.spin_projection
        phi, theta = get_helicity_angle_symbols(topology, a)
        amp = amp * wigner_D_conj(J, m, F(la) - F(lb), phi, theta)
        if canonical:
            inter = transition.interactions[node_id]
            L, S = inter.l_magnitude, inter.s_magnitude
            d = F(la) - F(lb)
            amp = amp * clebsch_gordan(L, 0, S, d, J, d) * clebsch_gordan(sa.particle.spin, la, sb.particle.spin, -F(lb), S, d)
        if lineshape is not None:
            amp = amp * lineshape(transition, node_id, parent, a, b)
    return amp


def symmetrised(transition):
    """All distinct attachments of identical final-state particles to the topology (the transition
    itself first): edge ids of identical particles are permuted in the topology."""
    import attrs

    topology = transition.topology
    fs = sorted(topology.outgoing_edge_ids)
    groups: dict[str, list[int]] = {}
    for i in fs:
        groups.setdefault(transition.states[i].particle.name, []).append(i)
    groups = {k: v for k, v in groups.items() if len(v) > 1}
    results, seen = [], set()
    perms_per_group = [list(itertools.permutations(g)) for g in groups.values()]
    for combo in itertools.product(*perms_per_group) if perms_per_group else [()]:
        mapping = {}
        for g, perm in zip(groups.values(), combo):
            mapping.update(dict(zip(g, perm)))
        new_edges = {mapping.get(i, i): e for i, e in topology.edges.items()}
        key = tuple(sorted((i, e.originating_node_id) for i, e in new_edges.items() if i in fs))
        if key in seen:
            continue
        seen.add(key)
        new_top = attrs.evolve(topology, edges=new_edges)
        results.append(attrs.evolve(transition, topology=new_top))
    return results


def outer_key(transition):
    t = transition.topology
    ini = tuple(sorted((transition.states[i].particle.name, F(transition.states[i].spin_projection)) for i in t.incoming_edge_ids))
    fin = tuple(sorted((transition.states[i].particle.name, F(transition.states[i].spin_projection)) for i in t.outgoing_edge_ids))
    return ini, fin
