"""E3 (second part): a symbolic interpreter for small numeric Python functions read from source.

Numbers are z3 reals, containers are Python lists of z3 terms (their length is concrete on every
path), control flow forks on solver feasibility; `while` loops are unrolled up to a bound with an
UNWINDING ASSERTION (a path that would need more iterations is reported, never silently cut).
Only the constructs needed by the encoded functions are supported; anything else raises Unsupported.
"""

from __future__ import annotations

import ast
import inspect
import textwrap
from dataclasses import dataclass, field

import z3

from .core import Unsupported


@dataclass
class Path:
    cond: list
    env: dict
    outcome: str = "running"  # returned | raised:<Exc> | unwinding
    value: object = None
    trace: list = field(default_factory=list)


class SymExec:
    def __init__(self, fn, *, unwind: int = 16, timeout_ms: int = 5000):
        self.src = textwrap.dedent(inspect.getsource(fn))
        self.fdef = ast.parse(self.src).body[0]
        self.unwind = unwind
        self.timeout_ms = timeout_ms
        self.solver_calls = 0

    # -- solver helpers
    def feasible(self, conds) -> bool:
        s = z3.Solver()
        s.set("timeout", self.timeout_ms)
        s.add(*conds)
        self.solver_calls += 1
        r = s.check()
        if str(r) == "unknown":
            raise Unsupported("path feasibility unknown")
        return str(r) == "sat"

    def run(self, args: dict, precondition: list) -> list[Path]:
        start = Path(cond=list(precondition), env=dict(args))
        done: list[Path] = []
        self._block(self.fdef.body, [start], done)
        return done

    # -- statements
    def _block(self, stmts, paths, done):
        for st in stmts:
            nxt = []
            for p in paths:
                nxt += self._stmt(st, p, done)
            paths = nxt
            if not paths:
                break
        return paths

    def _stmt(self, st, p: Path, done) -> list[Path]:  # noqa: C901, PLR0911, PLR0912
        if isinstance(st, ast.Expr) and isinstance(st.value, ast.Constant):
            return [p]
        if isinstance(st, ast.Assign) and len(st.targets) == 1 and isinstance(st.targets[0], ast.Name):
            out = []
            for q, v in self._expr(st.value, p):
                q.env = dict(q.env)
                q.env[st.targets[0].id] = v
                out.append(q)
            return out
        if isinstance(st, ast.AugAssign) and isinstance(st.target, ast.Name) and isinstance(st.op, (ast.Add, ast.Sub)):
            out = []
            for q, v in self._expr(st.value, p):
                q.env = dict(q.env)
                cur = q.env[st.target.id]
                q.env[st.target.id] = cur + v if isinstance(st.op, ast.Add) else cur - v
                out.append(q)
            return out
        if isinstance(st, ast.If):
            out = []
            for q, c in self._cond(st.test, p):
                for branch, cond in ((st.body, c), (st.orelse, z3.Not(c))):
                    conds = [*q.cond, cond]
                    if self.feasible(conds):
                        r = Path(cond=conds, env=dict(q.env), trace=list(q.trace))
                        out += self._block(branch, [r], done)
            return out
        if isinstance(st, ast.While):
            out, frontier = [], [p]
            for it in range(self.unwind + 1):
                nxt = []
                for q0 in frontier:
                    for q, c in self._cond(st.test, q0):
                        if self.feasible([*q.cond, z3.Not(c)]):
                            out.append(Path(cond=[*q.cond, z3.Not(c)], env=dict(q.env), trace=[*q.trace, f"loop exits after {it} iterations"]))
                        if self.feasible([*q.cond, c]):
                            if it == self.unwind:
                                done.append(Path(cond=[*q.cond, c], env=dict(q.env), outcome="unwinding", trace=list(q.trace)))
                                continue
                            body = Path(cond=[*q.cond, c], env=dict(q.env), trace=list(q.trace))
                            nxt += self._block(st.body, [body], done)
                frontier = nxt
                if not frontier:
                    break
            return out
        if isinstance(st, ast.Expr) and isinstance(st.value, ast.Call):
            return [q for q, _ in self._expr(st.value, p, done=done)]
        if isinstance(st, ast.Return):
            for q, v in self._expr(st.value, p):
                q.outcome, q.value = "returned", v
                done.append(q)
            return []
        raise Unsupported(f"statement {ast.unparse(st)[:80]}")

    # -- expressions: yield (path, value)
    def _expr(self, e, p: Path, done=None):  # noqa: C901, PLR0911, PLR0912
        if isinstance(e, ast.Constant):
            if isinstance(e.value, bool):
                return [(p, z3.BoolVal(e.value))]
            if isinstance(e.value, (int, float)):
                return [(p, z3.RealVal(str(e.value)))]
            if isinstance(e.value, str):
                return [(p, z3.RealVal(e.value))]  # Decimal("0.0")
            raise Unsupported(f"constant {e.value!r}")
        if isinstance(e, ast.Name):
            if e.id not in p.env:
                raise Unsupported(f"name {e.id}")
            return [(p, p.env[e.id])]
        if isinstance(e, ast.List) and not e.elts:
            return [(p, [])]
        if isinstance(e, ast.UnaryOp) and isinstance(e.op, ast.USub):
            return [(q, -v) for q, v in self._expr(e.operand, p)]
        if isinstance(e, ast.BinOp) and isinstance(e.op, (ast.Add, ast.Sub)):
            out = []
            for q, a in self._expr(e.left, p):
                for r, b in self._expr(e.right, q):
                    out.append((r, a + b if isinstance(e.op, ast.Add) else a - b))
            return out
        if isinstance(e, ast.Call):
            f = e.func
            if isinstance(f, ast.Name) and f.id in ("float", "Decimal"):
                return self._expr(e.args[0], p)  # exact on the stated input domain (half-integers)
            if isinstance(f, ast.Name) and f.id == "len":
                return [(q, z3.RealVal(len(v))) for q, v in self._expr(e.args[0], p)]
            if isinstance(f, ast.Attribute) and f.attr == "append":
                out = []
                for q, lst in self._expr(f.value, p):
                    for r, v in self._expr(e.args[0], q):
                        r.env = dict(r.env)
                        r.env[f.value.id] = [*lst, v]
                        out.append((r, None))
                return out
            if isinstance(f, ast.Attribute) and f.attr == "remove":
                out = []
                for q, lst in self._expr(f.value, p):
                    for r, v in self._expr(e.args[0], q):
                        not_before = []
                        for i, item in enumerate(lst):
                            conds = [*r.cond, *not_before, item == v]
                            if self.feasible(conds):
                                n = Path(cond=conds, env=dict(r.env), trace=[*r.trace, f"remove hits index {i}"])
                                n.env[f.value.id] = lst[:i] + lst[i + 1 :]
                                out.append((n, None))
                            not_before.append(item != v)
                        conds = [*r.cond, *not_before]
                        if self.feasible(conds):
                            n = Path(cond=conds, env=dict(r.env), outcome="raised:ValueError", trace=[*r.trace, "list.remove(x): x not in list"])
                            if done is None:
                                raise Unsupported("exception inside an expression")
                            done.append(n)
                return out
            raise Unsupported(f"call {ast.unparse(e)[:60]}")
        raise Unsupported(f"expression {ast.unparse(e)[:60]}")

    def _cond(self, e, p: Path):
        if isinstance(e, ast.Compare) and len(e.ops) == 1:
            out = []
            for q, a in self._expr(e.left, p):
                for r, b in self._expr(e.comparators[0], q):
                    op = e.ops[0]
                    if isinstance(op, (ast.In, ast.NotIn)) and isinstance(b, list):
                        c = z3.Or(*[a == item for item in b]) if b else z3.BoolVal(False)
                        c = z3.Not(c) if isinstance(op, ast.NotIn) else c
                    elif isinstance(b, list) or isinstance(a, list):
                        raise Unsupported(f"comparison {ast.unparse(e)}")
                    else:
                        fn = {ast.LtE: lambda: a <= b, ast.Lt: lambda: a < b, ast.GtE: lambda: a >= b, ast.Gt: lambda: a > b,
                              ast.Eq: lambda: a == b, ast.NotEq: lambda: a != b}.get(type(op))  # fmt: skip
                        if fn is None:
                            raise Unsupported(f"comparison {ast.unparse(e)}")
                        c = fn()
                    out.append((r, c))
            return out
        if isinstance(e, ast.BoolOp):
            combos = [(p, [])]
            for v in e.values:
                nxt = []
                for q, cs in combos:
                    for r, c in self._cond(v, q):
                        nxt.append((r, [*cs, c]))
                combos = nxt
            return [(q, z3.And(*cs) if isinstance(e.op, ast.And) else z3.Or(*cs)) for q, cs in combos]
        if isinstance(e, ast.UnaryOp) and isinstance(e.op, ast.Not):
            return [(q, z3.Not(c)) for q, c in self._cond(e.operand, p)]
        if isinstance(e, ast.Name):
            v = p.env[e.id]
            if z3.is_bool(v):
                return [(p, v)]
            raise Unsupported("truthiness of a non-boolean")
        raise Unsupported(f"condition {ast.unparse(e)[:60]}")
