"""Replay of solver models on the real SymPy expressions (high-precision evalf)."""

from __future__ import annotations

from fractions import Fraction

import sympy as sp


def rat(q) -> sp.Rational:
    q = Fraction(q)
    return sp.Rational(q.numerator, q.denominator)


def subs_from_assignment(tr, asg: dict, extra: dict | None = None) -> dict:
    """Map a solver assignment back to {sympy symbol: number} using the translator's symbol table."""
    subs = {}
    for name, sym in tr.symbols_seen.items():
        if name in asg:
            subs[sym] = rat(asg[name])
        elif f"re[{name}]" in asg:
            subs[sym] = rat(asg[f"re[{name}]"]) + sp.I * rat(asg[f"im[{name}]"])
        elif f"t[{name}]" in asg:
            subs[sym] = 4 * sp.atan(rat(asg[f"t[{name}]"]))
        elif f"cos[{name}]" in asg:
            subs[sym] = sp.atan2(rat(asg[f"sin[{name}]"]), rat(asg[f"cos[{name}]"]))
    if extra:
        subs.update(extra)
    return subs


def evaluate(expr, subs: dict, prec: int = 40):
    val = sp.N(sp.sympify(expr).xreplace(subs), prec)
    return val


def differs(lhs, rhs, subs: dict, rel: float = 1e-12, prec: int = 40) -> dict:
    lv, rv = evaluate(lhs, subs, prec), evaluate(rhs, subs, prec)
    ok_numbers = lv.is_number and rv.is_number and lv.is_finite and rv.is_finite
    if not ok_numbers:
        return {"reproduced": False, "lhs": str(lv)[:200], "rhs": str(rv)[:200], "note": "non-numeric/undefined at the model point"}
    diff = abs(lv - rv)
    scale = 1 + abs(lv) + abs(rv)
    return {"reproduced": bool(diff > rel * scale), "lhs": str(sp.N(lv, 15)), "rhs": str(sp.N(rv, 15)), "absdiff": str(sp.N(diff, 5))}


def concrete_uf(ctx, asg: dict, subs: dict, name: str):
    """A concrete function consistent with the solver model of the (Ackermannised)
    uninterpreted function `name`: Lagrange interpolation in the first argument through the
    model's values (first arguments of distinct applications must differ)."""
    pts = {}
    for var, e in getattr(ctx, "uf_exprs", {}).items():
        fname = e.func.__name__ if hasattr(e.func, "__name__") else str(e.func)
        if fname != name or var not in asg:
            continue
        x0 = sp.nsimplify(sp.sympify(e.args[0]).xreplace(subs))
        pts[x0] = rat(asg[var])
    xs = list(pts)

    def f(x, *rest):
        total = sp.Integer(0)
        for k, xk in enumerate(xs):
            term = pts[xk]
            for j, xj in enumerate(xs):
                if j != k:
                    term = term * (x - xj) / (xk - xj)
            total += term
        return total if xs else sp.Integer(1)

    return f


def numpy_undefined(expr, subs: dict) -> dict:
    """Does the NumPy code generated for `expr` return nan at the (real, float) point `subs`?
    Used to replay a failed radicand side obligation: real-dtype sqrt of a negative number."""
    import warnings

    import numpy as np

    syms = sorted(expr.free_symbols, key=str)
    fn = sp.lambdify(syms, expr, "numpy")
    args = [np.array([float(sp.N(subs.get(s_, 1)))]) for s_ in syms]
    with warnings.catch_warnings():
        warnings.simplefilter("ignore")
        try:
            val = np.asarray(fn(*args))
        except Exception as exc:  # noqa: BLE001
            return {"reproduced": True, "numpy_raises": f"{type(exc).__name__}: {exc}"}
    bad = bool(np.any(np.isnan(val)))
    return {"reproduced": bad, "numpy_value": str(val), "inputs": {str(s_): float(a[0]) for s_, a in zip(syms, args)}}
