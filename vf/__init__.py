"""Solver-based checking framework for ComPWA/ampform (see /verif/DESIGN.md)."""
