"""E2: symbolic execution of the NumPy source that sympy.lambdify generates.

The generated function's source is exec'd in a namespace whose array inputs are NumPy
object-dtype arrays of `vf.core.V` values (or `Angle`s); NumPy keeps its own semantics for
shapes, slicing, broadcasting, `array(...).transpose`, `sum(axis=...)` and arithmetic; only
what NumPy refuses for object dtype is re-implemented here (einsum, select, comparisons,
ones/zeros, elementwise math).  See DESIGN.md section 2 (E2).
"""

from __future__ import annotations

import inspect
import itertools
import textwrap
from fractions import Fraction

import numpy as np
import sympy as sp
import z3

from .core import Ctx, Unsupported, V, implied, ite
from .sym2smt import Angle


class SymAngle(Angle):
    """Angle known through e^{i angle}; supports the arithmetic the printers emit."""

    def __add__(self, other):
        if isinstance(other, Angle):
            return SymAngle(self.unit * other.unit)
        if other == 0:
            return self
        return NotImplemented

    __radd__ = __add__

    def __neg__(self):
        return SymAngle(self.unit.conjugate())

    def __sub__(self, other):
        return self + (-other)

    def __mul__(self, k):
        if isinstance(k, (int, np.integer)):
            base = self.unit if k >= 0 else self.unit.conjugate()
            return SymAngle(base ** abs(int(k)))
        return NotImplemented

    __rmul__ = __mul__


def _is_zero_term(t) -> bool:
    s = z3.simplify(t, som=True)
    return z3.is_rational_value(s) and s.numerator_as_long() == 0


def _elementwise(fn):
    def wrapped(x, *rest):
        if isinstance(x, np.ndarray):
            out = np.empty(x.shape, dtype=object)
            for idx in np.ndindex(x.shape):
                out[idx] = fn(x[idx], *[r[idx] if isinstance(r, np.ndarray) else r for r in rest])
            return out
        return fn(x, *rest)

    return wrapped


class SymNumPy:
    """Namespace of numpy-like functions over object arrays of V."""

    def __init__(self, ctx: Ctx, radicands: str = "prove"):
        """radicands: 'prove'  - a real sqrt is used only if the solver proves the radicand's sign,
                                 otherwise the exact principal root with If-terms;
                      'assume' - radicands of plain sqrt calls are assumed >= 0 (a stated narrowing of
                                 the domain to where NumPy's real sqrt is defined); no solver calls."""
        self.ctx = ctx
        self.radicands = radicands
        self.log: list[str] = []

    # -- scalars
    def _v(self, x) -> V:
        if isinstance(x, V):
            return x
        if isinstance(x, (int, np.integer)):
            return self.ctx.const(int(x))
        if isinstance(x, Fraction):
            return self.ctx.const(x)
        if isinstance(x, (float, np.floating)):
            return self.ctx.const(Fraction(float(x)).limit_denominator(10**12))
        if isinstance(x, complex):
            return self.ctx.const(0)._coerce(x)
        raise Unsupported(f"cannot lift {type(x).__name__} to a symbolic value")

    def _sqrt1(self, x):
        x = self._v(x)
        q = x.as_fraction()
        if q is not None:
            return self.ctx.sqrt_rational(q)
        if not x.is_real():
            raise Unsupported("sqrt of a complex symbolic value")
        if self.radicands == "assume":
            return x.sqrt_gen()
        try:
            if implied(self.ctx, x.ge(0), 3000):
                return x.sqrt_unchecked()
            if implied(self.ctx, x.le(0), 3000):
                return (-x).sqrt_unchecked() * self.ctx.I()
        except Unsupported:
            pass
        return x.sqrt(complex_branch=True)

    def _csqrt_idiom(self, cmp_name, A, X, Z):
        """select([cmp(A,0), True], [1j*sqrt(X), sqrt(Z)]) with X == -Z and the condition true exactly
        when Z < 0: the principal square root of Z."""
        A, X, Z = (np.asarray(t, dtype=object) for t in (A, X, Z))
        shape = np.broadcast_shapes(A.shape, X.shape, Z.shape)
        out = np.empty(shape, dtype=object)
        for idx in np.ndindex(shape):
            a, x, z = (self._v(np.broadcast_to(t, shape)[idx]) for t in (A, X, Z))
            if any(not _is_zero_term(t) for _, t in (x + z).eq_components(0)):
                raise Unsupported("select/sqrt idiom: branches are not sqrt(-x), sqrt(x)")
            rel = z if cmp_name == "less" else x  # the condition must be  Z < 0  (equivalently X > 0)
            if any(not _is_zero_term(t) for _, t in a.eq_components(rel)):
                raise Unsupported("select/sqrt idiom: condition does not test the sign of the radicand")
            out[idx] = self._complex_sqrt1(z)
        return out

    def _complex_sqrt1(self, x):
        """principal square root of a real value (the ComplexSqrt idiom)"""
        x = self._v(x)
        q = x.as_fraction()
        if q is not None:
            return self.ctx.sqrt_rational(q)
        if not x.is_real():
            raise Unsupported("ComplexSqrt of a complex symbolic value")
        if self.radicands == "assume":
            return x.sqrt_gen()  # domain narrowed to radicand >= 0 (the caller proves this for its reference)
        return x.sqrt(complex_branch=True)

    def _cos1(self, x):
        if isinstance(x, Angle):
            return x.cos()
        raise Unsupported("cos of a non-angle value")

    def _sin1(self, x):
        if isinstance(x, Angle):
            return x.sin()
        raise Unsupported("sin of a non-angle value")

    def _arccos1(self, x):
        x = self._v(x)
        s = self._sqrt1(self.ctx.const(1) - x * x)  # theta in [0, pi]: sin >= 0
        return SymAngle(x + self.ctx.I() * s)

    def _arctan2(self, y, xx):
        y, xx = self._v(y), self._v(xx)
        r = self._sqrt1(xx * xx + y * y)
        return SymAngle((xx + self.ctx.I() * y) * r.inverse())

    def _conj1(self, x):
        return self._v(x).conjugate()

    def _abs1(self, x):
        return self._v(x).abs()

    # -- namespace
    def namespace(self) -> dict:
        ctx = self.ctx

        def ones(shape, *a, **k):
            out = np.empty(shape, dtype=object)
            out[...] = ctx.const(1)
            return out

        def zeros(shape, *a, **k):
            out = np.empty(shape, dtype=object)
            out[...] = ctx.const(0)
            return out

        def array(obj, *a, **k):
            return np.array(obj, dtype=object)

        def cmp(op):
            def fn(a, b):
                def one(x, y):
                    return getattr(self._v(x), op)(self._v(y))

                return _elementwise(one)(*np.broadcast_arrays(np.asarray(a, dtype=object), np.asarray(b, dtype=object)))

            return fn

        def select(condlist, choicelist, default=0):
            arrs = [np.asarray(c, dtype=object) for c in choicelist]
            conds = [np.asarray(c, dtype=object) for c in condlist]
            shape = np.broadcast_shapes(*[a.shape for a in arrs + conds])
            out = np.empty(shape, dtype=object)
            for idx in np.ndindex(shape):
                val = None
                for c, a in reversed(list(zip(conds, arrs))):
                    cv = np.broadcast_to(c, shape)[idx]
                    av = self._v(np.broadcast_to(a, shape)[idx])
                    if cv is True or (isinstance(cv, (bool, np.bool_)) and cv):
                        val = av
                    elif cv is False or (isinstance(cv, (bool, np.bool_)) and not cv):
                        continue
                    else:
                        if val is None:
                            if isinstance(default, float) and np.isnan(default):
                                raise Unsupported("select: nan default reachable")
                            val = self._v(default)
                        val = ite(cv, av, val)
                if val is None:
                    val = self._v(default)
                out[idx] = val
            return out

        def einsum(subscripts, *operands):
            return sym_einsum(subscripts, *[np.asarray(o, dtype=object) for o in operands], lift=self._v)

        ns = {
            "array": array,
            "ones": ones,
            "zeros": zeros,
            "len": len,
            "sqrt": _elementwise(self._sqrt1),
            "cos": _elementwise(self._cos1),
            "sin": _elementwise(self._sin1),
            "arccos": _elementwise(self._arccos1),
            "arctan2": lambda y, x: _elementwise(self._arctan2)(*np.broadcast_arrays(np.asarray(y, dtype=object), np.asarray(x, dtype=object))),
            "conjugate": _elementwise(self._conj1),
            "conj": _elementwise(self._conj1),
            "abs": _elementwise(self._abs1),
            "absolute": _elementwise(self._abs1),
            "less": cmp("lt"),
            "greater": cmp("gt"),
            "less_equal": cmp("le"),
            "greater_equal": cmp("ge"),
            "select": select,
            "einsum": einsum,
            "csqrt_idiom": self._csqrt_idiom,
            "sum": np.sum,
            "nan": float("nan"),
            "pi": None,
            "builtins": __builtins__,
        }
        return ns


def sym_einsum(subscripts: str, *ops, lift=lambda x: x):
    """einsum for object arrays (leading ellipsis = shared batch dimensions)."""
    lhs, rhs = subscripts.replace(" ", "").split("->")
    ins = lhs.split(",")
    if len(ins) != len(ops):
        raise Unsupported(f"einsum operand count: {subscripts}")
    ell = [s.startswith("...") for s in ins]
    ins = [s[3:] if e else s for s, e in zip(ins, ell)]
    out_ell = rhs.startswith("...")
    rhs = rhs[3:] if out_ell else rhs
    batch_shapes = []
    for s, e, op in zip(ins, ell, ops):
        nb = op.ndim - len(s)
        if (nb and not e) or nb < 0:
            raise Unsupported(f"einsum rank mismatch for {s}: ndim {op.ndim}")
        batch_shapes.append(op.shape[:nb])
    batch = np.broadcast_shapes(*batch_shapes) if batch_shapes else ()
    dims: dict[str, int] = {}
    for s, op, bs in zip(ins, ops, batch_shapes):
        for ch, n in zip(s, op.shape[len(bs) :]):
            if dims.setdefault(ch, n) != n:
                raise Unsupported(f"einsum size mismatch on index {ch}")
    summed = [ch for ch in dims if ch not in rhs]
    out = np.empty(tuple(batch) + tuple(dims[ch] for ch in rhs), dtype=object)
    for bidx in np.ndindex(*batch) if batch else [()]:
        for oidx in itertools.product(*[range(dims[ch]) for ch in rhs]):
            env = dict(zip(rhs, oidx))
            total = None
            for sidx in itertools.product(*[range(dims[ch]) for ch in summed]):
                env.update(zip(summed, sidx))
                term = None
                for s, op, bs in zip(ins, ops, batch_shapes):
                    b = tuple(0 if n == 1 else i for n, i in zip(bs, bidx[len(bidx) - len(bs) :])) if bs else ()
                    val = lift(op[b + tuple(env[ch] for ch in s)])
                    term = val if term is None else term * val
                total = term if total is None else total + term
            out[tuple(bidx) + tuple(oidx)] = total
    return out


def generated_source(args, expr, *, cse: bool):
    fn = sp.lambdify(args, expr, modules="numpy", cse=cse)
    src = inspect.getsource(fn)
    return fn, textwrap.dedent(src)


class _ComplexSqrtIdiom(__import__("ast").NodeTransformer):
    """select([cmp(A, 0), True], [1j*sqrt(X), sqrt(Z)], default=nan)  ->  csqrt_idiom(cmp, A, X, Z)

    This is the code ampform's ComplexSqrt prints (sympy may rewrite x<0 as -x>0 and print -X in expanded
    form).  The run-time helper verifies X + Z == 0 and that the condition selects the non-negative
    radicand before returning the principal root; otherwise it raises Unsupported."""

    def visit_Call(self, node):
        import ast

        self.generic_visit(node)
        try:
            if not (isinstance(node.func, ast.Name) and node.func.id == "select" and len(node.args) >= 2):
                return node
            conds, vals = node.args[0], node.args[1]
            if not (isinstance(conds, ast.List) and isinstance(vals, ast.List) and len(conds.elts) == 2 and len(vals.elts) == 2):
                return node
            c0, c1 = conds.elts
            v0, v1 = vals.elts
            if not (isinstance(c0, ast.Call) and getattr(c0.func, "id", "") in ("less", "greater") and isinstance(c1, ast.Constant) and c1.value is True):
                return node
            if not (isinstance(c0.args[1], ast.Constant) and c0.args[1].value == 0):
                return node
            if not (isinstance(v1, ast.Call) and getattr(v1.func, "id", "") == "sqrt"):
                return node
            if not (isinstance(v0, ast.BinOp) and isinstance(v0.op, ast.Mult) and isinstance(v0.left, ast.Constant) and v0.left.value == 1j):
                return node
            inner = v0.right
            if not (isinstance(inner, ast.Call) and getattr(inner.func, "id", "") == "sqrt"):
                return node
            new = ast.Call(
                func=ast.Name(id="csqrt_idiom", ctx=ast.Load()),
                args=[ast.Constant(c0.func.id), c0.args[0], inner.args[0], v1.args[0]],
                keywords=[],
            )
            return ast.copy_location(new, node)
        except Exception:  # noqa: BLE001
            return node


def sym_exec(ctx: Ctx, src: str, inputs: list, radicands: str = "prove"):
    """Execute lambdify-generated source on symbolic inputs; returns the function's result."""
    import ast

    ns = SymNumPy(ctx, radicands).namespace()
    tree = _ComplexSqrtIdiom().visit(ast.parse(src))
    ast.fix_missing_locations(tree)
    src = ast.unparse(tree)
    code = compile(src, "<lambdify-generated>", "exec")
    exec(code, ns)  # noqa: S102
    fn = ns["_lambdifygenerated"]
    return fn(*inputs)


def momentum_array(ctx: Ctx, name: str, n: int = 1):
    """Symbolic four-momentum batch of shape (n, 4): variables name[b].E/x/y/z."""
    out = np.empty((n, 4), dtype=object)
    for b in range(n):
        for c, comp in enumerate("Exyz"):
            out[b, c] = ctx.var(f"{name}[{b}].{comp}")
    return out


def angle_array(ctx: Ctx, name: str, n: int = 1):
    out = np.empty((n,), dtype=object)
    for b in range(n):
        h = ctx.half_angle_exp(f"{name}[{b}]")
        out[b] = SymAngle(h * h)
    return out


def scalar_array(ctx: Ctx, name: str, n: int = 1):
    out = np.empty((n,), dtype=object)
    for b in range(n):
        out[b] = ctx.var(f"{name}[{b}]")
    return out


def _num(t) -> float:
    if isinstance(t, Fraction):
        return float(t)
    s = z3.simplify(t)
    return float(Fraction(s.numerator_as_long(), s.denominator_as_long()))


def validate_shim(seed: int = 0) -> list[str]:
    """Compare the re-implemented einsum/select/sqrt/arctan2/arccos with real NumPy on concrete
    rational arrays.  Returns a list of mismatches (a non-empty list is a harness error)."""
    import random

    rng = random.Random(seed)
    ctx = Ctx("shim")
    sn = SymNumPy(ctx)
    ns = sn.namespace()
    errors = []

    def rnd(shape):
        f = np.array([Fraction(rng.randint(-9, 9), rng.randint(1, 5)) for _ in range(int(np.prod(shape)))], dtype=object).reshape(shape)
        sym = np.empty(shape, dtype=object)
        for idx in np.ndindex(shape):
            sym[idx] = ctx.const(f[idx])
        return f.astype(float), sym

    def val(v):
        # constant with radicals / i: evaluate
        total = 0j
        for bas, (r, i) in v.c.items():
            root = 1.0
            for g in bas:
                root *= float(g) ** 0.5
            total += (_num(r) + 1j * _num(i)) * root
        return total

    for subs, shapes in [
        ("...ij,...j->...i", [(2, 4, 4), (2, 4)]),
        ("...ij,...jk->...ik", [(2, 4, 4), (2, 4, 4)]),
        ("...ij,...jk,...kl->...il", [(1, 4, 4), (1, 4, 4), (1, 4, 4)]),
        ("...ij,...jk,...kl,...l->...i", [(2, 4, 4), (2, 4, 4), (2, 4, 4), (2, 4)]),
    ]:
        fl, sy = zip(*[rnd(s) for s in shapes])
        want = np.einsum(subs, *fl)
        got = ns["einsum"](subs, *sy)
        gotf = np.vectorize(lambda v: complex(val(v)).real)(got).astype(float)
        if got.shape != want.shape or not np.allclose(gotf, want):
            errors.append(f"einsum {subs}")
    fl, sy = rnd((3,))
    got = ns["select"]([ns["less"](sy, 0), True], [-sy, sy], default=float("nan"))
    if not np.allclose([complex(val(v)).real for v in got], np.select([fl < 0, True], [-fl, fl])):
        errors.append("select")
    for q in (Fraction(9, 4), Fraction(2), Fraction(-3)):
        got = complex(val(ns["sqrt"](ctx.const(q))))
        if abs(got - np.sqrt(complex(float(q)))) > 1e-12:
            errors.append(f"sqrt({q})")
    y, x = Fraction(3), Fraction(-4)
    ang = ns["arctan2"](np.array([ctx.const(y)], dtype=object), np.array([ctx.const(x)], dtype=object))[0]
    if abs(complex(val(ang.unit)) - np.exp(1j * np.arctan2(3.0, -4.0))) > 1e-12:
        errors.append("arctan2")
    ang = ns["arccos"](ctx.const(Fraction(-3, 5)))
    if abs(complex(val(ang.unit)) - np.exp(1j * np.arccos(-0.6))) > 1e-12:
        errors.append("arccos")
    return errors
