"""Composition by congruence abstraction (E4-style lemma chain).

Goal: library_result == template[a := expected_a for every placeholder a], where the
template is itself library output in terms of placeholder symbols and the expected
expressions are big.  Instead of flattening:
 (a) every placeholder's expected value equals one *node* occurring in the library result
     (identity per node, small);
 (c) with those nodes replaced by opaque solver variables, the library result equals the
     template with the placeholders mapped to the same variables (all values of the opaque
     variables -- this is where wrong wiring shows).
Soundness: (c) holds for all values of the opaque variables, in particular for the values
of the nodes; (a) identifies these with the expected values.  If a placeholder has no
matching node the comparison falls back to the flattened form.
"""

from __future__ import annotations

import sympy as sp

from .core import Ctx, implied
from .solve import Obligation, identity_obligations
from .sym2smt import Translator


def composition_obligations(
    ctx: Ctx,
    tr: Translator,
    entries: dict,
    expected: dict,
    node_types: tuple,
    *,
    label: str = "composition",
    translator_kwargs: dict | None = None,
):
    """entries: {name: (library_expr, template_expr)}; expected: {placeholder: sympy expr}.

    Returns (obligations, info).
    """
    kw = translator_kwargs or {}
    obs: list[Obligation] = []
    nodes: list = []
    for lib, _ in entries.values():
        for t in node_types:
            nodes.extend(lib.atoms(t))
    nodes = sorted(set(nodes), key=str)
    node_val = [tr(nd) for nd in nodes]
    node_var: dict[int, object] = {}
    placeholder_val: dict = {}
    flat = False
    matches = {}
    for a, exp in expected.items():
        va = tr(exp)
        k = next((k for k, nd in enumerate(nodes) if nd == exp), None)
        if k is None:
            for k2, nv in enumerate(node_val):
                if all(implied(ctx, t == 0, 5000) for _, t in nv.eq_components(va)):
                    k = k2
                    break
        if k is None:
            flat = True
            break
        matches[a] = k
        if k not in node_var:
            name = f"U{k}"
            if va.is_real():
                z = ctx.real(name)
                node_var[k] = ctx.var(name)
                try:
                    if implied(ctx, va.gt(0), 5000):
                        ctx.assume(z > 0)
                        ctx.mark_positive(z)
                    elif implied(ctx, va.ge(0), 5000):
                        ctx.assume(z >= 0)
                except Exception:  # noqa: BLE001  (radical components: no sign information)
                    pass
            else:
                node_var[k] = ctx.cvar(name)
        obs += identity_obligations(f"{label}(a) {a}==node{k}", node_val[k], va)
        placeholder_val[a] = node_var[k]
    if flat:
        vals = {a: tr(exp) for a, exp in expected.items()}
        tr_lib = tr
        tr_tpl = Translator(ctx, symbol_values={**tr.symbol_values, **vals}, **kw)
    else:
        sym_full = {nodes[k]: v for k, v in node_var.items()}
        tr_lib = Translator(ctx, symbol_values={**tr.symbol_values, **sym_full}, **kw)
        tr_tpl = Translator(ctx, symbol_values={**tr.symbol_values, **placeholder_val}, **kw)
    def exact_factory(name, lib, tpl):
        def make():
            vals = {a: tr(exp) for a, exp in expected.items()}
            tr_t = Translator(ctx, symbol_values={**tr.symbol_values, **vals}, **kw)
            return identity_obligations(f"{label}(c){name}[flat]", tr(lib), tr_t(tpl))

        return make

    for name, (lib, tpl) in entries.items():
        new = identity_obligations(f"{label}(c){name}" + ("[flat]" if flat else ""), tr_lib(lib), tr_tpl(tpl))
        if not flat:
            for ob in new:
                ob.fallback = exact_factory(name, lib, tpl)
        obs += new
    info = {"flat": flat, "nodes": len(nodes), "matches": {str(a): k for a, k in matches.items()}}
    return obs, info
