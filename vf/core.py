"""E1 value domain: exact complex values over z3 real terms.

A value is  (sum_b (re_b + i*im_b) * sqrt-basis_b) / den  where

* ``re_b``/``im_b`` are *real terms*: either a python ``Fraction`` (constant) or a
  z3 ``ArithRef`` polynomial in solver variables;
* the basis ``b`` is a frozenset of generators with ``g*g -> square(g)`` (integer
  primes for square roots of integers, named generators for polynomial radicands);
* ``den`` is a product of recorded non-zero *atoms* with integer exponents
  (LCM is taken in sums, no z3 division is ever emitted).

See DESIGN.md section 2 (E1).
"""

from __future__ import annotations

import itertools
from fractions import Fraction
from typing import Iterable

import z3


class Unsupported(Exception):
    """Raised when a construct cannot be encoded: obligation is inconclusive."""


# --------------------------------------------------------------------------- real terms
Real = "Fraction | z3.ArithRef"


def is_const(a) -> bool:
    return isinstance(a, Fraction)


def C(x) -> Fraction:
    return x if isinstance(x, Fraction) else Fraction(x)


ZERO = Fraction(0)
ONE = Fraction(1)


def to_z3(a):
    if isinstance(a, Fraction):
        if a.denominator == 1:
            return z3.RealVal(a.numerator)
        return z3.Q(a.numerator, a.denominator)
    return a


def radd(a, b):
    if is_const(a):
        if is_const(b):
            return a + b
        if a == 0:
            return b
        return to_z3(a) + b
    if is_const(b):
        if b == 0:
            return a
        return a + to_z3(b)
    return a + b


def rneg(a):
    if is_const(a):
        return -a
    return -a


def rsub(a, b):
    if is_const(b):
        if b == 0:
            return a
        if is_const(a):
            return a - b
        return a - to_z3(b)
    if is_const(a):
        if a == 0:
            return -b
        return to_z3(a) - b
    return a - b


def rmul(a, b):
    if is_const(a):
        if is_const(b):
            return a * b
        if a == 0:
            return ZERO
        if a == 1:
            return b
        if a == -1:
            return -b
        return to_z3(a) * b
    if is_const(b):
        if b == 0:
            return ZERO
        if b == 1:
            return a
        if b == -1:
            return -a
        return a * to_z3(b)
    return a * b


def rpow(a, n: int):
    assert n >= 0
    if n == 0:
        return ONE
    if is_const(a):
        return a**n
    result = None
    base = a
    while n:
        if n & 1:
            result = base if result is None else result * base
        n >>= 1
        if n:
            base = base * base
    return result


def rsum(items: Iterable):
    const = ZERO
    terms = []
    for x in items:
        if is_const(x):
            const += x
        else:
            terms.append(x)
    if not terms:
        return const
    if const != 0:
        terms.append(to_z3(const))
    if len(terms) == 1:
        return terms[0]
    return z3.Sum(terms)


def is_zero(a) -> bool:
    return is_const(a) and a == 0


# --------------------------------------------------------------------------- context
class Ctx:
    """Collects variables, domain constraints, auxiliary definitions, side obligations."""

    def __init__(self, name: str = ""):
        self.name = name
        self.vars: dict[str, z3.ArithRef] = {}
        self.constraints: list = []  # domain + aux definitions, assumed
        self.domain_notes: list[str] = []
        self.side: list[tuple[str, object]] = []  # (label, z3 Bool) must be proven from constraints
        self.atoms: dict[int, object] = {}  # atom id -> z3 term
        self.atom_pos: dict[int, bool] = {}  # known positive?
        self.aux_sqrt: dict = {}
        self.gen_square: dict = {}  # generator -> real term (square)
        self.gen_square_v: dict = {}  # generator -> V (square with radical components: nested radicals)
        self.gen_by_key: dict = {}
        self.angle_t: dict[str, z3.ArithRef] = {}
        self.unit_atoms: dict[str, tuple] = {}
        self.ufs: dict[str, z3.FuncDeclRef] = {}
        self._fresh = itertools.count()
        self.var_meta: dict[str, dict] = {}
        self.known_pos: set[int] = set()

    # ---- numeric fingerprints (used only to *propose* merging of equal radicals; every merge is
    #      recorded as a lemma that the solver must prove)
    def _point(self, k: int) -> list:
        import random

        pts = self.__dict__.setdefault("_points", {})
        n = len(self.vars)
        if k not in pts or pts[k][0] != n:
            rng = random.Random(1000 + k)
            pairs = []
            for name, var in self.vars.items():
                if self.var_meta.get(name, {}).get("aux"):
                    val = z3.RealVal(1)
                elif name.endswith(".E"):
                    val = z3.Q(rng.randint(900, 1300), 100)
                else:
                    val = z3.Q(rng.randint(-99, 99), 100)
                pairs.append((var, val))
            pts[k] = (n, pairs)
        return pts[k][1]

    def eval_real(self, t, k: int):
        import mpmath

        if is_const(t):
            return mpmath.mpf(t.numerator) / t.denominator
        v = z3.simplify(z3.substitute(t, *self._point(k)))
        if z3.is_rational_value(v):
            return mpmath.mpf(v.numerator_as_long()) / v.denominator_as_long()
        raise Unsupported("fingerprint: term did not evaluate to a number")

    def eval_value(self, val: "V", k: int):
        import mpmath

        mpmath.mp.dps = 60
        total = mpmath.mpc(0)
        for b, (r, i) in val.c.items():
            root = mpmath.mpf(1)
            for g in b:
                root = root * self.eval_generator(g, k)
            total += mpmath.mpc(self.eval_real(r, k), self.eval_real(i, k)) * root
        for a, e in val.den.items():
            total = total / self.eval_real(self.atoms[a], k) ** e
        return total

    def eval_generator(self, g, k: int):
        import mpmath

        cache = self.__dict__.setdefault("_gen_vals", {})
        if (g, k) not in cache:
            if isinstance(g, int):
                cache[g, k] = mpmath.sqrt(g)
            elif g in self.gen_square_v:
                cache[g, k] = mpmath.sqrt(self.eval_value(self.gen_square_v[g], k))
            else:
                cache[g, k] = mpmath.sqrt(self.eval_real(self.gen_square[g], k))
        return cache[g, k]

    def witness(self, constraints, ks=(0, 1, 2, 3)) -> int | None:
        """A concrete rational point (one of the fingerprint points) at which all constraints hold and all
        assumed radicands are positive: a satisfiability witness for the domain."""
        import mpmath

        for k in ks:
            try:
                pairs = self._point(k)
                ok = all(z3.is_true(z3.simplify(z3.substitute(c, *pairs))) for c in constraints)
                if ok:
                    for g in list(self.gen_square) + list(self.gen_square_v):
                        val = self.eval_generator(g, k) ** 2
                        if not (mpmath.im(val) == 0 and mpmath.re(val) > 0):
                            ok = False
                            break
                if ok:
                    return k
            except Exception:  # noqa: BLE001
                continue
        return None

    def mark_positive(self, term):
        self.known_pos.add(term.get_id())

    def is_known_positive(self, term) -> bool:
        if is_const(term):
            return term > 0
        return term.get_id() in self.known_pos

    # -- variables
    def real(self, name: str, **meta):
        v = self.vars.get(name)
        if v is None:
            v = z3.Real(name)
            self.vars[name] = v
            self.var_meta[name] = meta
        return v

    def fresh(self, prefix: str):
        return self.real(f"{prefix}!{next(self._fresh)}", aux=True)

    def assume(self, cond, note: str | None = None):
        self.constraints.append(cond)
        if note:
            self.domain_notes.append(note)

    def require(self, label: str, cond):
        """Side obligation: must hold on the domain for the encoding to be faithful.

        It is proved from the constraints and denominator atoms that existed *before* it was
        created (so never from the auxiliary definition it justifies)."""
        self.side.append((label, cond, len(self.constraints), len(self.atoms)))

    # -- denominators
    def atom(self, term, positive: bool) -> int:
        """Register z3 term as a denominator atom; returns its id."""
        i = term.get_id()
        if i not in self.atoms:
            self.atoms[i] = term
            self.atom_pos[i] = positive
        elif positive and not self.atom_pos[i]:
            self.atom_pos[i] = True
        return i

    # -- generators
    def prime_square(self, g):
        if isinstance(g, int):
            return Fraction(g)
        return self.gen_square[g]

    def generator(self, name: str, square) -> "V":
        """Named positive generator rho with rho**2 == square (a real term)."""
        self.gen_square[name] = square
        return V(self, {frozenset([name]): (ONE, ZERO)})

    # -- angles
    def angle_param(self, name: str):
        t = self.angle_t.get(name)
        if t is None:
            t = self.real(f"t[{name}]", angle=name)
            self.angle_t[name] = t
        return t

    def half_angle_exp(self, name: str) -> "V":
        """e^{i x/2} = (1 - t^2 + 2 i t)/(1 + t^2),  x = 4 atan(t)."""
        t = self.angle_param(name)
        d = 1 + t * t
        a = self.atom(d, True)
        return V(self, {B1: (1 - t * t, 2 * t)}, {a: 1})

    def unit_atom(self, name: str) -> "V":
        """Opaque unit-modulus number c + i s with c^2 + s^2 = 1 (e^{i w})."""
        cs = self.unit_atoms.get(name)
        if cs is None:
            c = self.real(f"cos[{name}]", unit=name)
            s = self.real(f"sin[{name}]", unit=name)
            self.assume(c * c + s * s == 1)
            cs = (c, s)
            self.unit_atoms[name] = cs
        return V(self, {B1: cs})

    def uf(self, name: str, arity: int):
        f = self.ufs.get(name)
        if f is None:
            f = z3.Function(name, *([z3.RealSort()] * (arity + 1)))
            self.ufs[name] = f
        return f

    # -- values
    def const(self, x) -> "V":
        return V(self, {B1: (C(x), ZERO)})

    def var(self, name: str, **meta) -> "V":
        return V(self, {B1: (self.real(name, **meta), ZERO)})

    def cvar(self, name: str) -> "V":
        return V(
            self,
            {B1: (self.real(f"re[{name}]", cpart=name), self.real(f"im[{name}]", cpart=name))},
        )

    def I(self) -> "V":  # noqa: E743
        return V(self, {B1: (ZERO, ONE)})

    def sqrt_int(self, n: int) -> "V":
        """sqrt of a non-negative integer as a basis element."""
        assert n >= 0
        if n == 0:
            return self.const(0)
        outside, gens = 1, []
        p = 2
        m = n
        while p * p <= m:
            e = 0
            while m % p == 0:
                m //= p
                e += 1
            outside *= p ** (e // 2)
            if e % 2:
                gens.append(p)
            p += 1
        if m > 1:
            gens.append(m)
        return V(self, {frozenset(gens): (Fraction(outside), ZERO)})

    def sqrt_rational(self, q: Fraction) -> "V":
        if q < 0:
            return self.sqrt_rational(-q) * self.I()
        return self.sqrt_int(q.numerator * q.denominator) * self.const(Fraction(1, q.denominator))


B1 = frozenset()


def _merge_den(d1: dict, d2: dict):
    """LCM of two denominators; returns (lcm, missing1, missing2)."""
    if d1 == d2:
        return d1, None, None
    lcm = dict(d1)
    for a, e in d2.items():
        if lcm.get(a, 0) < e:
            lcm[a] = e
    m1 = {a: e - d1.get(a, 0) for a, e in lcm.items() if e > d1.get(a, 0)}
    m2 = {a: e - d2.get(a, 0) for a, e in lcm.items() if e > d2.get(a, 0)}
    return lcm, m1 or None, m2 or None


class V:
    """Exact complex value (see module docstring).  Immutable."""

    __slots__ = ("ctx", "c", "den")
    __array_priority__ = 1000

    def __init__(self, ctx: Ctx, comps: dict, den: dict | None = None):
        self.ctx = ctx
        self.c = {b: ri for b, ri in comps.items() if not (is_zero(ri[0]) and is_zero(ri[1]))}
        self.den = den or {}
        if not self.c:
            self.den = {}

    # ---------------------------------------------------------------- helpers
    def _den_term(self, den: dict):
        out = ONE
        for a, e in den.items():
            out = rmul(out, rpow(self.ctx.atoms[a], e))
        return out

    def _scaled(self, missing: dict | None):
        if not missing:
            return self.c
        f = self._den_term(missing)
        return {b: (rmul(r, f), rmul(i, f)) for b, (r, i) in self.c.items()}

    def _coerce(self, other) -> "V":
        if isinstance(other, V):
            return other
        if isinstance(other, (int, Fraction)):
            return self.ctx.const(other)
        if isinstance(other, float):
            return self.ctx.const(Fraction(other).limit_denominator(10**12))
        if isinstance(other, complex):
            return self.ctx.const(Fraction(other.real).limit_denominator(10**12)) + self.ctx.I() * self.ctx.const(
                Fraction(other.imag).limit_denominator(10**12)
            )
        try:
            import numpy as np

            if isinstance(other, np.generic):
                return self._coerce(other.item())
        except ImportError:  # pragma: no cover
            pass
        return NotImplemented

    def is_real(self) -> bool:
        return all(is_zero(i) for _, i in self.c.values())

    def is_zero(self) -> bool:
        return not self.c

    def is_constant(self) -> bool:
        return not self.den and all(is_const(r) and is_const(i) for r, i in self.c.values())

    def as_fraction(self) -> Fraction | None:
        if self.is_zero():
            return ZERO
        if self.is_constant() and set(self.c) == {B1} and is_zero(self.c[B1][1]):
            return self.c[B1][0]
        return None

    # ---------------------------------------------------------------- ring ops
    def __add__(self, other):
        other = self._coerce(other)
        if other is NotImplemented:
            return other
        if other.is_zero():
            return self
        if self.is_zero():
            return other
        den, m1, m2 = _merge_den(self.den, other.den)
        c1, c2 = self._scaled(m1), other._scaled(m2)
        out = dict(c1)
        for b, (r, i) in c2.items():
            if b in out:
                r0, i0 = out[b]
                out[b] = (radd(r0, r), radd(i0, i))
            else:
                out[b] = (r, i)
        return V(self.ctx, out, dict(den))

    __radd__ = __add__

    def __neg__(self):
        return V(self.ctx, {b: (rneg(r), rneg(i)) for b, (r, i) in self.c.items()}, dict(self.den))

    def __pos__(self):
        return self

    def __sub__(self, other):
        other = self._coerce(other)
        if other is NotImplemented:
            return other
        return self + (-other)

    def __rsub__(self, other):
        other = self._coerce(other)
        if other is NotImplemented:
            return other
        return other + (-self)

    def __mul__(self, other):
        other = self._coerce(other)
        if other is NotImplemented:
            return other
        if self.is_zero() or other.is_zero():
            return V(self.ctx, {})
        out: dict = {}
        slow = []
        vsq_table = self.ctx.gen_square_v
        for b1, (r1, i1) in self.c.items():
            for b2, (r2, i2) in other.c.items():
                common = b1 & b2
                b = b1 ^ b2
                re = rsub(rmul(r1, r2), rmul(i1, i2))
                im = radd(rmul(r1, i2), rmul(i1, r2))
                nested = []
                for g in common:
                    if g in vsq_table:
                        nested.append(vsq_table[g])
                        continue
                    sq = self.ctx.prime_square(g)
                    re, im = rmul(re, sq), rmul(im, sq)
                if nested:
                    t = V(self.ctx, {b: (re, im)})
                    for sqv in nested:
                        t = t * sqv
                    slow.append(t)
                    continue
                if b in out:
                    r0, i0 = out[b]
                    out[b] = (radd(r0, re), radd(i0, im))
                else:
                    out[b] = (re, im)
        den = dict(self.den)
        for a, e in other.den.items():
            den[a] = den.get(a, 0) + e
        res = V(self.ctx, out, den)
        for t in slow:
            td = dict(t.den)
            for a, e in den.items():
                td[a] = td.get(a, 0) + e
            res = res + V(self.ctx, t.c, td)
        return res

    __rmul__ = __mul__

    def conjugate(self):
        return V(self.ctx, {b: (r, rneg(i)) for b, (r, i) in self.c.items()}, dict(self.den))

    conj = conjugate

    def abs2(self) -> "V":
        return self * self.conjugate()

    def real_part(self):
        return V(self.ctx, {b: (r, ZERO) for b, (r, i) in self.c.items()}, dict(self.den))

    def imag_part(self):
        return V(self.ctx, {b: (i, ZERO) for b, (r, i) in self.c.items()}, dict(self.den))

    def inverse(self) -> "V":
        """1/self.  The new denominator atom is *assumed* non-zero (domain restriction,
        reported through ``atoms_nonzero``)."""
        ctx = self.ctx
        if self.is_zero():
            raise Unsupported("division by literal zero")
        if len(self.c) != 1:
            # rationalise one generator at a time: (a + b g)^-1 = (a - b g)/(a^2 - b^2 g^2)
            gens = set().union(*self.c.keys())
            g = sorted(gens, key=str)[0]
            a = V(ctx, {b: ri for b, ri in self.c.items() if g not in b}, dict(self.den))
            bg = V(ctx, {b: ri for b, ri in self.c.items() if g in b}, dict(self.den))
            conj = a - bg
            norm = a * a - bg * bg  # = self*conj; computed without the cancelling cross terms, hence free of g
            return conj * norm.inverse()
        ((b, (r, i)),) = self.c.items()
        if any(g in ctx.gen_square_v for g in b):
            # 1/(c sqrt(b)) = sqrt(b) / (c * b) with b's square a value containing further radicals
            coeff = V(ctx, {B1: (r, i)}, dict(self.den))
            for g in b:
                coeff = coeff * (ctx.gen_square_v[g] if g in ctx.gen_square_v else V(ctx, {B1: (ctx.prime_square(g), ZERO)}))
            return V(ctx, {b: (ONE, ZERO)}) * coeff.inverse()
        # self = (r + i I) sqrt(b) / den ;  1/self = den (r - i I) sqrt(b) / ((r^2+i^2) b^2)
        bsq = ONE
        for g in b:
            bsq = rmul(bsq, ctx.prime_square(g))
        if is_zero(i):
            num = (ONE, ZERO)
            d = rmul(r, bsq)
            positive = (not is_const(d)) and (
                (is_const(bsq) and bsq > 0 and ctx.is_known_positive(r))
                or (is_const(r) and r > 0 and ctx.is_known_positive(bsq))
                or (ctx.is_known_positive(r) and ctx.is_known_positive(bsq))
            )
        else:
            num = (r, rneg(i))
            d = rmul(radd(rmul(r, r), rmul(i, i)), bsq)
            positive = is_const(bsq) and bsq > 0  # sum of squares, non-zero by assumption
        if is_const(d):
            if d == 0:
                raise Unsupported("division by zero constant")
            out = V(ctx, {b: (rmul(num[0], 1 / d), rmul(num[1], 1 / d))})
        else:
            # split monomial denominators into their factors (E*E -> atom E squared): smaller LCMs and
            # the same normal form whichever way the product was built
            const, factors = _split_product(d)
            if const == 0:
                raise Unsupported("division by zero constant")
            den = {}
            if len(factors) == 1 and const == 1:
                den[ctx.atom(d, positive)] = 1
            else:
                for f_ in factors:
                    aid = ctx.atom(f_, ctx.is_known_positive(f_))
                    den[aid] = den.get(aid, 0) + 1
            inv_c = 1 / const
            out = V(ctx, {b: (rmul(num[0], inv_c), rmul(num[1], inv_c))}, den)
        if self.den:
            out = out * V(ctx, {B1: (self._den_term(self.den), ZERO)})
        return out

    def __truediv__(self, other):
        other = self._coerce(other)
        if other is NotImplemented:
            return other
        return self * other.inverse()

    def __rtruediv__(self, other):
        other = self._coerce(other)
        if other is NotImplemented:
            return other
        return other * self.inverse()

    def __pow__(self, n):
        if isinstance(n, V):
            q = n.as_fraction()
            if q is None:
                raise Unsupported("symbolic exponent")
            n = q
        if isinstance(n, float):
            n = Fraction(n).limit_denominator(1000)
        n = Fraction(n)
        if n.denominator == 1:
            k = n.numerator
            if k == 0:
                return self.ctx.const(1)
            base = self if k > 0 else self.inverse()
            k = abs(k)
            result = None
            while k:
                if k & 1:
                    result = base if result is None else result * base
                k >>= 1
                if k:
                    base = base * base
            return result
        if n.denominator == 2:
            return self.sqrt() ** n.numerator
        raise Unsupported(f"power {n}")

    # ---------------------------------------------------------------- radicals
    def single_real(self):
        """(numerator real term, den dict) if value is real with trivial basis."""
        if self.is_zero():
            return ZERO, {}
        if set(self.c) != {B1} or not is_zero(self.c[B1][1]):
            raise Unsupported("expected a real value without radical components")
        return self.c[B1][0], self.den

    def real_term_nodiv(self):
        """z3 term for a real, denominator-free value (for UF arguments, comparisons)."""
        n, den = self.single_real()
        if den:
            raise Unsupported("denominator in a position that needs a plain term")
        return to_z3(n)

    def normalized(self) -> "V":
        """Polynomial normal form of every coefficient (z3's sum-of-monomials simplifier); identically-zero
        components disappear.  Used in contexts with few variables (C04: one rotation parameter)."""
        out = {}
        for b, (r, i) in self.c.items():
            nr = r if is_const(r) else _som(r)
            ni = i if is_const(i) else _som(i)
            out[b] = (nr, ni)
        return V(self.ctx, out, dict(self.den))

    def sqrt_gen(self) -> "V":
        """Positive square root as a *generator* g with g*g -> radicand (exact radical arithmetic,
        products of equal roots reduce, no solver variable).  The radicand is ASSUMED >= 0: a stated
        narrowing of the domain to where NumPy's real sqrt is defined."""
        ctx = self.ctx
        q = self.as_fraction()
        if q is not None:
            return ctx.sqrt_rational(q)
        if not self.is_real():
            raise Unsupported("sqrt of a complex value")
        even = {a: e // 2 + (e % 2) for a, e in self.den.items()}
        odd = {a: 1 for a, e in self.den.items() if e % 2}
        for a in odd:
            if not ctx.atom_pos[a]:
                if _dag_size(ctx.atoms[a], 200) < 200 and implied(ctx, ctx.atoms[a] > 0, 3000):
                    ctx.atom_pos[a] = True
                    continue
                # sign not provable cheaply: narrow the domain explicitly to where this denominator is
                # positive (it is positive at the witness points); recorded as an assumption
                try:
                    signs = [ctx.eval_real(ctx.atoms[a], k) > 0 for k in (0, 1)]
                except Exception:  # noqa: BLE001
                    signs = [False]
                if all(signs):
                    ctx.assume(ctx.atoms[a] > 0, "narrowed: a denominator under a square root is assumed positive")
                    ctx.atom_pos[a] = True
                else:
                    raise Unsupported("sqrt over a denominator of unknown sign")
        scale = self._den_term(odd) if odd else ONE
        comps = {b: (rmul(r, scale), ZERO) for b, (r, i) in self.c.items()}
        uni = getattr(ctx, "univariate", None)
        if uni is not None:
            comps = V(ctx, comps).normalized().c
            if not comps:
                return ctx.const(0)
            if set(comps) == {B1}:
                # radicand = c * prod f_i^e_i over Q[t]: factors without real roots and of even multiplicity
                # leave the root (they have constant sign); the rest stays under the radical
                import sympy as sp

                zt, st = uni
                term = comps[B1][0]
                poly = sp.Poly(z3_poly_to_sympy(to_z3(term), {str(zt): st}), st)
                c0, factors = sp.factor_list(poly.as_expr(), st)
                c0 = sp.Rational(c0)
                res = None
                out_poly = sp.Integer(1)
                gens = []
                for f_, e_ in factors:
                    fp = sp.Poly(f_, st)
                    if fp.LC() < 0:  # normalise the sign of the irreducible factor
                        fp, c0 = -fp, (c0 * (-1) ** e_)
                    no_real_root = fp.count_roots() == 0
                    if no_real_root and fp.eval(0) < 0:
                        fp, c0 = -fp, (c0 * (-1) ** e_)
                    if e_ // 2:
                        if not no_real_root and (e_ // 2) % 2:
                            # |f|^(odd): keep f^2 under a radical of its own (generator of f^2)
                            gens.append(("abs", fp))
                            out_poly *= fp.as_expr() ** (e_ // 2 - 1)
                        else:
                            out_poly *= fp.as_expr() ** (e_ // 2)
                    if e_ % 2:
                        gens.append(("sqrt", fp))
                if c0 < 0:
                    raise Unsupported("negative radicand in an assumed-real square root")
                res = ctx.sqrt_rational(Fraction(int(c0.p), int(c0.q))) * V(ctx, {B1: (sympy_poly_to_z3(out_poly, {st: zt}), ZERO)})
                table = ctx.__dict__.setdefault("poly_generators", {})
                for kind, fp in gens:
                    key_ = (kind, str(fp.as_expr()))
                    name_ = table.get(key_)
                    if name_ is None:
                        name_ = f"{'r' if kind == 'sqrt' else 'a'}{len(table)}[{fp.as_expr()}]"
                        table[key_] = name_
                        sq_expr = fp.as_expr() if kind == "sqrt" else fp.as_expr() ** 2
                        ctx.gen_square[name_] = sympy_poly_to_z3(sq_expr, {st: zt})
                    res = res * V(ctx, {frozenset([name_]): (ONE, ZERO)})
                return V(ctx, res.c, {**res.den, **{a: e for a, e in even.items() if e}})

        def canon(t):
            # canonical key: z3's sum-of-monomials normal form (only for terms of moderate size), so that
            # polynomially equal radicands built in a different order share one generator
            t = to_z3(t)
            keep = ctx.__dict__.setdefault("_keepalive", [])  # AST ids are only stable while the AST lives
            if _dag_size(t, 400) < 400:
                try:
                    t = z3.simplify(t, som=True, sort_sums=True)
                except z3.Z3Exception:
                    pass
            keep.append(t)
            return t.get_id()

        key = tuple(sorted((tuple(sorted(map(str, b))), canon(r)) for b, (r, _) in comps.items()))
        name = ctx.gen_by_key.get(key)
        radicand_v = V(ctx, comps)
        if name is None:
            # propose a merge with an existing generator through a numeric fingerprint (two points);
            # the proposal is only used together with the lemma "the two radicands are equal"
            try:
                import mpmath

                fp = tuple(mpmath.nstr(ctx.eval_value(radicand_v, k), 40) for k in (0, 1))
            except Exception:  # noqa: BLE001
                fp = None
            if fp is not None:
                table = ctx.__dict__.setdefault("gen_by_fp", {})
                other = table.get(fp)
                if other is not None:
                    old_sq = ctx.gen_square_v.get(other) or V(ctx, {B1: (ctx.gen_square[other], ZERO)})
                    ctx.__dict__.setdefault("merge_lemmas", []).append((other, old_sq, radicand_v))
                    ctx.gen_by_key[key] = other
                    name = other
                else:
                    table[fp] = f"g{len(set(ctx.gen_by_key.values()))}"
        if name is None:
            name = f"g{len(set(ctx.gen_by_key.values()))}"
            ctx.gen_by_key[key] = name
            if set(comps) == {B1}:
                term = comps[B1][0]
                ctx.gen_square[name] = term
                if not is_const(term):
                    ctx.known_pos.add(term.get_id())  # assumed: radicand > 0 wherever it is divided by
            else:
                ctx.gen_square_v[name] = V(ctx, comps)
        return V(ctx, {frozenset([name]): (ONE, ZERO)}, {a: e for a, e in even.items() if e})

    def sqrt_unchecked(self) -> "V":
        """Real sqrt whose radicand >= 0 has already been proven by the caller (no side obligation)."""
        return self.sqrt(checked=False)

    def sqrt(self, *, complex_branch: bool = False, checked: bool = True) -> "V":
        ctx = self.ctx
        q = self.as_fraction()
        if q is not None:
            return ctx.sqrt_rational(q)
        if self.is_constant() and self.is_real():
            raise Unsupported("nested radical constant")
        n, den = self.single_real()
        # sqrt(n/den): write den = E^2 * O with O square-free part; sqrt = v / (E*O), v^2 = n*O
        even = {a: e // 2 + (e % 2) for a, e in den.items()}  # exponent of result denominator
        odd = {a: 1 for a, e in den.items() if e % 2}
        radicand = rmul(n, self._den_term(odd)) if odd else n
        for a in odd:
            if not ctx.atom_pos[a]:
                if implied(ctx, ctx.atoms[a] > 0):
                    ctx.atom_pos[a] = True  # proven by the solver from the domain
                else:
                    raise Unsupported("sqrt over a denominator of unknown sign")
        key = ("sqrt", to_z3(radicand).get_id(), complex_branch)
        hit = ctx.aux_sqrt.get(key)
        if hit is None:
            v = ctx.fresh("sqrt")
            ctx.mark_positive(v)
            rz = to_z3(radicand)
            if complex_branch:
                ctx.assume(z3.And(v >= 0, v * v == z3.If(rz >= 0, rz, -rz)))
            else:
                if checked:
                    ctx.require("radicand >= 0", rz >= 0)
                ctx.assume(z3.And(v >= 0, v * v == rz))
            hit = (v, rz)
            ctx.aux_sqrt[key] = hit
        v, rz = hit
        if complex_branch:
            comps = {B1: (z3.If(rz >= 0, v, z3.RealVal(0)), z3.If(rz >= 0, z3.RealVal(0), v))}
        else:
            comps = {B1: (v, ZERO)}
        return V(ctx, comps, {a: e for a, e in even.items() if e})

    def abs(self) -> "V":
        if self.is_real():
            q = self.as_fraction()
            if q is not None:
                return self.ctx.const(abs(q))
            n, den = self.single_real()
            sign_fix = ONE
            for a, e in den.items():
                if e % 2 and not self.ctx.atom_pos[a]:
                    sign_fix = rmul(sign_fix, self.ctx.atoms[a])
            nz = to_z3(rmul(n, sign_fix))
            res = z3.If(nz >= 0, to_z3(n), -to_z3(n))
            if not is_zero(rsub(sign_fix, ONE)):
                raise Unsupported("Abs over denominator of unknown sign")
            return V(self.ctx, {B1: (res, ZERO)}, dict(den))
        return self.abs2().sqrt()

    # ---------------------------------------------------------------- comparisons (real values)
    def sign_numerator(self):
        """z3 term with the same sign as this (real, radical-free) value."""
        n, den = self.single_real()
        for a, e in den.items():
            if e % 2 and not self.ctx.atom_pos[a]:
                n = rmul(n, self.ctx.atoms[a])
        return to_z3(n)

    def _cmp_term(self, other):
        other = self._coerce(other)
        return (self - other).sign_numerator()

    def gt(self, other):
        return self._cmp_term(other) > 0

    def ge(self, other):
        return self._cmp_term(other) >= 0

    def lt(self, other):
        return self._cmp_term(other) < 0

    def le(self, other):
        return self._cmp_term(other) <= 0

    def eq_components(self, other) -> list:
        """List of (label, z3 term) whose vanishing (all of them) is sufficient for equality.

        If all generators are algebraically independent it is also necessary; a
        non-zero component is therefore only a *candidate* difference (replayed).
        """
        other = self._coerce(other)
        den, m1, m2 = _merge_den(self.den, other.den)
        c1, c2 = self._scaled(m1), other._scaled(m2)
        out = []
        for b in sorted(set(c1) | set(c2), key=lambda s: sorted(map(str, s))):
            r1, i1 = c1.get(b, (ZERO, ZERO))
            r2, i2 = c2.get(b, (ZERO, ZERO))
            label = "*".join(f"sqrt({g})" for g in sorted(b, key=str)) or "1"
            dr, di = rsub(r1, r2), rsub(i1, i2)
            if not is_zero(dr):
                out.append((f"re[{label}]", to_z3(dr)))
            if not is_zero(di):
                out.append((f"im[{label}]", to_z3(di)))
        return out

    def den_nonzero_constraints(self) -> list:
        return []

    def __repr__(self):
        return f"V(basis={[sorted(map(str, b)) for b in self.c]}, den={len(self.den)} atoms)"


def ite(cond, a: V, b: V) -> V:
    """If-then-else on values (common denominator and basis)."""
    ctx = a.ctx
    den, m1, m2 = _merge_den(a.den, b.den)
    c1, c2 = a._scaled(m1), b._scaled(m2)
    out = {}
    for bas in set(c1) | set(c2):
        r1, i1 = c1.get(bas, (ZERO, ZERO))
        r2, i2 = c2.get(bas, (ZERO, ZERO))
        r = r1 if (is_const(r1) and is_const(r2) and r1 == r2) else z3.If(cond, to_z3(r1), to_z3(r2))
        i = i1 if (is_const(i1) and is_const(i2) and i1 == i2) else z3.If(cond, to_z3(i1), to_z3(i2))
        out[bas] = (r, i)
    return V(ctx, out, dict(den))


def atoms_nonzero(ctx: Ctx, first_n: int | None = None) -> list:
    """Constraints stating every denominator atom is non-zero (positive if so recorded)."""
    out = []
    for k, (i, t) in enumerate(ctx.atoms.items()):
        if first_n is not None and k >= first_n:
            break
        out.append(t > 0 if ctx.atom_pos[i] else t != 0)
    return out


def z3_poly_to_sympy(t, var_map: dict):
    """z3 polynomial term (+, *, unary minus, numerals, variables of var_map) -> sympy expression"""
    import sympy as sp

    cache: dict = {}

    def go(u):
        i = u.get_id()
        if i in cache:
            return cache[i]
        if z3.is_rational_value(u):
            r = sp.Rational(u.numerator_as_long(), u.denominator_as_long())
        elif z3.is_const(u) and u.decl().kind() == z3.Z3_OP_UNINTERPRETED:
            name = str(u)
            if name not in var_map:
                raise Unsupported(f"variable {name} in a univariate context")
            r = var_map[name]
        elif z3.is_add(u):
            r = sp.Add(*[go(c) for c in u.children()])
        elif z3.is_mul(u):
            r = sp.Mul(*[go(c) for c in u.children()])
        elif z3.is_sub(u):
            ch = [go(c) for c in u.children()]
            r = ch[0] - sp.Add(*ch[1:])
        elif z3.is_app_of(u, z3.Z3_OP_UMINUS):
            r = -go(u.children()[0])
        else:
            raise Unsupported(f"non-polynomial z3 term {u.decl().name()}")
        cache[i] = r
        return r

    return go(t)


def sympy_poly_to_z3(expr, var_map: dict):
    """sympy polynomial with rational coefficients in the symbols of var_map (sympy symbol -> z3 var) -> z3 term / Fraction"""
    import sympy as sp

    expr = sp.expand(expr)
    total = ZERO
    for term in sp.Add.make_args(expr):
        coeff, rest = term.as_coeff_Mul()
        val = Fraction(int(coeff.p), int(coeff.q))
        for base, power in rest.as_powers_dict().items():
            if base == 1:
                continue
            val = rmul(val, rpow(var_map[base], int(power)))
        total = radd(total, val)
    return total


def _split_product(t):
    """z3 term -> (rational constant, list of non-constant factors)"""
    const, factors, stack = Fraction(1), [], [t]
    while stack:
        u = stack.pop()
        if z3.is_rational_value(u):
            const *= Fraction(u.numerator_as_long(), u.denominator_as_long())
        elif z3.is_mul(u):
            stack.extend(u.children())
        elif z3.is_app_of(u, z3.Z3_OP_UMINUS):
            const = -const
            stack.append(u.children()[0])
        else:
            factors.append(u)
    factors.sort(key=lambda f_: f_.get_id())
    return const, factors


def _som(t):
    s_ = z3.simplify(t, som=True, sort_sums=True)
    if z3.is_rational_value(s_):
        return Fraction(s_.numerator_as_long(), s_.denominator_as_long())
    return s_


def _dag_size(t, limit: int) -> int:
    seen, stack = set(), [t]
    while stack and len(seen) < limit:
        u = stack.pop()
        i = u.get_id()
        if i in seen:
            continue
        seen.add(i)
        stack.extend(u.children())
    return len(seen)


def _term_vars(t, limit: int = 20000) -> set:
    seen, out, stack = set(), set(), [t]
    while stack and len(seen) < limit:
        u = stack.pop()
        i = u.get_id()
        if i in seen:
            continue
        seen.add(i)
        if z3.is_const(u) and u.decl().kind() == z3.Z3_OP_UNINTERPRETED:
            out.add(str(u))
        stack.extend(u.children())
    return out


def _implied(ctx: Ctx, cond, timeout_ms: int = 10000) -> bool:
    """True iff the solver proves `cond` from the current domain (used to pick branches soundly).

    First from a small, relevant part of the domain (proving from fewer assumptions is sound): the small
    constraints (bounds, thresholds) plus whatever mentions the variables of `cond` within two steps; the large
    auxiliary definitions that have nothing to do with `cond` otherwise stall nlsat.  Then from the whole domain."""
    budget = min(timeout_ms, getattr(ctx, "implied_timeout_ms", timeout_ms))
    everything = list(ctx.constraints) + list(atoms_nonzero(ctx)) + list(ctx.__dict__.get("_proved", []))
    if len(everything) > 12:
        cache = ctx.__dict__.setdefault("_constraint_vars", {})
        info = []
        for a in everything:
            k = a.get_id()
            if k not in cache:
                cache[k] = (_term_vars(a), _dag_size(a, 80))
                ctx.__dict__.setdefault("_keepalive", []).append(a)
            info.append((a, *cache[k]))
        cone = _term_vars(cond)
        for step in range(3):
            if step:
                grown = set(cone)
                for a, vs, size in info:
                    if size < 80 and vs & cone:
                        grown |= vs
                cone = grown
            # closed sub-problem: only constraints that talk about nothing but the cone
            part = [a for a, vs, size in info if size < 80 and vs and vs <= cone]
            if part and len(part) < len(everything):
                s = z3.Solver()
                s.set("timeout", max(200, budget // 4))
                for a in part:
                    s.add(a)
                s.add(z3.Not(cond))
                if str(s.check()) == "unsat":
                    return True
    s = z3.Solver()
    s.set("timeout", budget)
    for a in everything:
        s.add(a)
    s.add(z3.Not(cond))
    return str(s.check()) == "unsat"


def implied(ctx: Ctx, cond, timeout_ms: int = 10000) -> bool:
    ok = _implied(ctx, cond, timeout_ms)
    if ok and _dag_size(cond, 40) < 40:
        # a small proved fact is kept as a lemma for later sign questions (it is implied by the domain)
        ctx.__dict__.setdefault("_proved", []).append(cond)
    return ok
