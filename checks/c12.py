"""C12  Lineshape normalisations hold and builder API equals function API.

Encoded from /repo (E1+E4): EnergyDependentWidth.evaluate, BlattWeisskopfSquared.evaluate,
_get_polynomial_blatt_weisskopf, _formulate_blatt_weisskopf, SphericalHankel1.evaluate,
_SymbolicSum, FormFactor.evaluate, RelativisticBreitWignerBuilder.__call__ and the three
convenience builders, relativistic_breit_wigner(_with_ff).   DESIGN.md section 4, C12.
"""

from __future__ import annotations

from fractions import Fraction

import sympy as sp
import z3

from vf.core import Ctx, Unsupported
from vf.harness import Check
from vf.replay import concrete_uf, differs, subs_from_assignment
from vf.solve import Obligation, Result, discharge, identity_obligations, side_obligations
from vf.sym2smt import Translator

NAME_CLASSES = ("BreakupMomentumSquared",)
REAL_PHSP = ("PhaseSpaceFactor", "PhaseSpaceFactorAbs", "PhaseSpaceFactorComplex")
OPAQUE_PHSP = ("PhaseSpaceFactorSWave", "EqualMassPhaseSpaceFactor")


def _dyn():
    import ampform.dynamics as dyn

    return dyn


def _phsp(name):
    if name == "UF":
        f = sp.Function("rhoX", real=True)
        return lambda s, m1, m2: f(s, m1, m2)
    return getattr(_dyn(), name)


class UFTranslator(Translator):
    def _uf(self, e):
        v = super()._uf(e)
        term = v.c[frozenset()][0]
        if term.get_id() not in self.ctx.known_pos:
            self.ctx.assume(term > 0)
            self.ctx.mark_positive(term)
        return v


def mk_tr(ctx, phsp_name="", congruent=False, **kw):
    opaque = OPAQUE_PHSP if phsp_name in OPAQUE_PHSP else ()
    return UFTranslator(ctx, branch_by_solver=True, name_classes=NAME_CLASSES, opaque_classes=() if congruent else opaque, uf_classes=opaque if congruent else (), **kw)


# --------------------------------------------------------------------------- width normalisation
def cfg_width(config, tier, seed):
    dyn = _dyn()
    L, phsp_name = config["L"], config["phsp"]
    X = _phsp(phsp_name)
    ctx = Ctx(config["name"])
    s = sp.Symbol("s", nonnegative=True)
    m0, G0 = sp.symbols("m0 Gamma0", positive=True)
    ma, mb = sp.symbols("m_a m_b", nonnegative=True)
    d = sp.Symbol("d", positive=True)
    tr0 = mk_tr(ctx, phsp_name, congruent=True)
    zm0, za, zb = (tr0(x).real_term_nodiv() for x in (m0, ma, mb))
    ctx.assume(zm0 > za + zb)
    tr = mk_tr(ctx, phsp_name, congruent=True, symbol_values={**tr0.symbol_values, s: tr0(m0) * tr0(m0)})
    tr.symbols_seen.update(tr0.symbols_seen)
    width = dyn.EnergyDependentWidth(s, m0, G0, ma, mb, L, d, phsp_factor=X)
    obs = identity_obligations("Gamma(m0^2)==Gamma0", tr(width), tr(G0))

    def replay(name, asg):
        subs = subs_from_assignment(tr, asg)
        subs[s] = subs[m0] ** 2
        Xc = concrete_uf(ctx, asg, subs, "rhoX") if phsp_name == "UF" else X
        w = dyn.EnergyDependentWidth(s, m0, G0, ma, mb, L, d, phsp_factor=Xc)
        return differs(w.doit(), G0, subs, rel=1e-9)

    return discharge(ctx, obs + side_obligations(ctx), config=config["name"], replay=replay, timeout_s=60)


# --------------------------------------------------------------------------- Blatt-Weisskopf
def cfg_bw(config, tier, seed):
    from ampform.dynamics import form_factor as ff

    L = config["L"]
    ctx = Ctx(config["name"])
    z = sp.Symbol("z", nonnegative=True)
    w = sp.Symbol("w", positive=True)
    tr = Translator(ctx, unit_symbols=("w",))
    zz = tr(z).real_term_nodiv()
    res: list[Result] = []
    poly = ff.BlattWeisskopfSquared(z, L)
    Vp = tr(poly)  # unfolds through evaluate(): polynomial path
    # E4: sympy proposes numerator constant / denominator polynomial; every hint is re-proved
    expr = sp.together(poly.doit())
    num, den = sp.fraction(expr)
    cL = sp.Poly(num, z).LC()
    D = sp.Poly(den, z)
    if sp.Poly(num, z).degree() != L or D.degree() != L:
        res.append(Result(name="hint-shape", kind="lemma", status="unknown", config=config["name"], detail=f"unexpected shape {expr}"))
        return res
    obs = []
    VD, VzL = tr(D.as_expr()), tr(z**L)
    obs += identity_obligations("B2(z)*D(z)==c*z^L [lemma: hint D,c]", Vp * VD, tr(cL) * VzL)
    obs.append(Obligation("D(z)>0 for z>=0 (incl. D(0)>0: threshold behaviour z^L)", VD.gt(0), "inequality"))
    obs.append(Obligation("0<=B2(z)", Vp.ge(0), "inequality"))
    bound = sp.Rational(cL, D.LC())
    obs.append(Obligation(f"B2(z)<=limit {bound}", Vp.le(tr(bound)), "inequality"))
    one = ff.BlattWeisskopfSquared(sp.Integer(1), L)
    obs += identity_obligations("B2(1)==1", tr(one), ctx.const(1))
    # polynomial path == Hankel definition, z = w^2, w > 0 ; exp(i w), exp(i) are unit atoms
    hankel = ff._formulate_blatt_weisskopf(sp.Integer(L), w**2)
    Vh = tr(hankel)
    Vpw = tr(ff.BlattWeisskopfSquared(w**2, L))
    obs += identity_obligations("polynomial==Hankel(int L)", Vpw, Vh)
    Lsym = sp.Symbol("L", integer=True, nonnegative=True)
    symbolic = ff.BlattWeisskopfSquared(w**2, Lsym).doit().xreplace({Lsym: sp.Integer(L)})
    obs += identity_obligations("polynomial==Hankel(symbolic L -> n)", Vpw, tr(symbolic))

    def replay(name, asg):
        subs = subs_from_assignment(tr, asg)
        head = name.split("::")[0]
        zval = subs.get(z, sp.Integer(1))
        if head.startswith("polynomial==Hankel"):
            wv = subs.get(w)
            if wv is None or not wv.is_positive:  # unit-atom model: take any positive w, the identity is in w
                wv = sp.Rational(7, 5)
            sub2 = {w: wv}
            rhs = hankel if "int" in head else symbolic
            return differs(ff.BlattWeisskopfSquared(w**2, L).doit(), rhs.doit(), sub2, rel=1e-12)
        val = sp.N(poly.doit().xreplace({z: zval}), 40)
        if head.startswith("B2(1)"):
            v1 = sp.N(one.doit(), 40)
            return {"reproduced": bool(abs(v1 - 1) > 1e-20), "value": str(v1)}
        if head.startswith("B2(z)*D"):
            return differs(poly.doit() * D.as_expr(), cL * z**L, {z: zval})
        if head.startswith("D(z)>0"):
            dv = sp.N(D.as_expr().xreplace({z: zval}), 40)
            return {"reproduced": bool(dv <= 0), "D": str(dv)}
        if head.startswith("0<="):
            return {"reproduced": bool(val < 0), "value": str(val)}
        return {"reproduced": bool(val > bound), "value": str(val), "bound": str(bound)}

    return res + discharge(ctx, obs + side_obligations(ctx), config=config["name"], replay=replay, timeout_s=120)


# --------------------------------------------------------------------------- builder API vs function API
def _particle():
    from qrules.particle import Particle

    return Particle(name="R(1500)", latex="R_{1500}", pid=99001, spin=1, mass=1.507, width=0.109)


def cfg_builder(config, tier, seed):
    dyn = _dyn()
    from ampform.dynamics import builder as bld

    ffl, edw, phsp_name, L = config["ff"], config["edw"], config["phsp"], config["L"]
    which = config.get("convenience")
    X = _phsp(phsp_name) if not which else None
    part = _particle()
    m, m1, m2 = sp.symbols("m_12 m_1 m_2", nonnegative=True)
    th, ph = sp.symbols("theta phi", real=True)
    pool = bld.TwoBodyKinematicVariableSet(
        incoming_state_mass=m, outgoing_state_mass1=m1, outgoing_state_mass2=m2, helicity_theta=th, helicity_phi=ph, angular_momentum=L
    )
    if which:
        fn = getattr(bld, which)
        ffl, edw, phsp_name = {
            "create_relativistic_breit_wigner": (False, False, "PhaseSpaceFactor"),
            "create_relativistic_breit_wigner_with_ff": (True, True, "PhaseSpaceFactor"),
            "create_analytic_breit_wigner": (True, True, "EqualMassPhaseSpaceFactor"),
        }[which]
        X = _phsp(phsp_name)
        expr, defaults = fn(part, pool)
    else:
        expr, defaults = bld.RelativisticBreitWignerBuilder(form_factor=ffl, energy_dependent_width=edw, phsp_factor=X)(part, pool)
    ident = part.latex or part.name
    mR = sp.Symbol(f"m_{{{ident}}}", nonnegative=True)
    GR = sp.Symbol(Rf"\Gamma_{{{ident}}}", nonnegative=True)
    dR = sp.Symbol(f"d_{{{ident}}}", positive=True)
    s = m**2
    # the public function API
    if ffl and edw:
        ref = dyn.relativistic_breit_wigner_with_ff(s, mR, GR, m1, m2, L, dR, phsp_factor=X)
    elif edw:
        width = dyn.EnergyDependentWidth(s, mR, GR, m1, m2, L, dR, phsp_factor=X)
        ref = (mR * GR) / (mR**2 - s - width * mR * sp.I)
    elif ffl:
        ref = dyn.FormFactor(s, m1, m2, L, dR) * dyn.relativistic_breit_wigner(s, mR, GR)
    else:
        ref = dyn.relativistic_breit_wigner(s, mR, GR)
    ctx = Ctx(config["name"])
    tr = mk_tr(ctx, phsp_name)
    zm, z1, z2, zR = (tr(x).real_term_nodiv() for x in (m, m1, m2, mR))
    ctx.assume(z3.And(zm > z1 + z2, zR > z1 + z2))
    obs = identity_obligations("builder==function API", tr(expr), tr(ref))
    out = []
    # ground side-checks: suggested defaults
    want = {mR: part.mass, GR: part.width}
    if ffl or edw:
        want[dR] = 1
    ok = {str(k): v for k, v in defaults.items()} == {str(k): v for k, v in want.items()}
    out.append(
        Result(
            name="defaults==particle table", kind="ground", status="ok" if ok else "fail", config=config["name"],
            replay={"reproduced": not ok, "got": {str(k): v for k, v in defaults.items()}, "want": {str(k): v for k, v in want.items()}},
        )
    )  # fmt: skip

    def replay(name, asg):
        subs = subs_from_assignment(tr, asg)
        if phsp_name == "UF":
            Xc = concrete_uf(ctx, asg, subs, "rhoX")
            e2, _ = bld.RelativisticBreitWignerBuilder(form_factor=ffl, energy_dependent_width=edw, phsp_factor=Xc)(part, pool)
            if ffl and edw:
                r2 = dyn.relativistic_breit_wigner_with_ff(s, mR, GR, m1, m2, L, dR, phsp_factor=Xc)
            elif edw:
                r2 = (mR * GR) / (mR**2 - s - dyn.EnergyDependentWidth(s, mR, GR, m1, m2, L, dR, phsp_factor=Xc) * mR * sp.I)
            else:
                r2 = ref
            return differs(e2.doit(), r2.doit(), subs, rel=1e-9)
        for sym in (m, m1, m2, mR, GR, dR):
            subs.setdefault(sym, sp.Rational(3, 2))
        return differs(expr.doit(), ref.doit(), subs, rel=1e-9)

    return out + discharge(ctx, obs + side_obligations(ctx), config=config["name"], replay=replay, timeout_s=60)


def worker(config, tier, seed):
    try:
        return {"width": cfg_width, "bw": cfg_bw, "builder": cfg_builder}[config["kind"]](config, tier, seed)
    except Unsupported as exc:
        return [Result(name="translate", kind="identity", status="unknown", config=config["name"], detail=f"Unsupported: {exc}")]


def configs(tier):
    out = []
    Ls = (0, 1, 2, 4, 7) if tier == "quick" else tuple(range(11))
    width_phsp = ("UF", "PhaseSpaceFactor", "PhaseSpaceFactorAbs", *OPAQUE_PHSP) if tier == "quick" else ("UF", *REAL_PHSP, *OPAQUE_PHSP)
    for L in Ls:
        for ph in width_phsp:
            if tier == "quick" and ph != "UF" and L not in (1, 2):
                continue
            out.append({"name": f"width:L={L}:{ph}", "kind": "width", "L": L, "phsp": ph})
    for L in range(0, 11) if tier == "thorough" else (0, 1, 2, 3, 5, 7, 10):
        out.append({"name": f"blatt-weisskopf:L={L}", "kind": "bw", "L": L})
    phs = ("UF", *REAL_PHSP, *OPAQUE_PHSP)
    for ffl in (False, True):
        for edw in (False, True):
            for ph in phs if edw else ("PhaseSpaceFactor",):
                for L in (1, 2) if tier == "quick" else (0, 1, 2):
                    if tier == "quick" and L == 2 and ph not in ("UF", "PhaseSpaceFactorComplex"):
                        continue
                    out.append({"name": f"builder:ff={ffl}:edw={edw}:{ph}:L={L}", "kind": "builder", "ff": ffl, "edw": edw, "phsp": ph, "L": L})
    for which in ("create_relativistic_breit_wigner", "create_relativistic_breit_wigner_with_ff", "create_analytic_breit_wigner"):
        out.append({"name": f"builder:{which}:L=1", "kind": "builder", "convenience": which, "ff": None, "edw": None, "phsp": "", "L": 1})
    return out


def main():
    dyn = _dyn()
    from ampform.dynamics import builder as bld
    from ampform.dynamics import form_factor as ff

    chk = Check("C12", __doc__)
    chk.run(worker, configs(chk.tier))
    chk.finish(
        functions=[
            dyn.EnergyDependentWidth.evaluate, ff.BlattWeisskopfSquared.evaluate, ff._get_polynomial_blatt_weisskopf,
            ff._formulate_blatt_weisskopf, ff.SphericalHankel1.evaluate, ff._SymbolicSum.doit, ff.FormFactor.evaluate,
            bld.RelativisticBreitWignerBuilder.__call__, bld.RelativisticBreitWignerBuilder, bld.create_non_dynamic_with_ff,
            dyn.relativistic_breit_wigner, dyn.relativistic_breit_wigner_with_ff,
        ],  # fmt: skip
        bounds={"L": "0..10 thorough; {0,1,2,3,5,7,10} quick", "builder flags": "4 combinations x {UF, 5 phase-space classes}", "phsp for width": "UF + classes"},
        assumptions=[
            "width/builder domain: decaying mass and pole mass above threshold m_a+m_b, non-negative masses, positive radius",
            "uninterpreted phase-space factor rhoX: real, > 0 where applied; S-wave and equal-mass factors are opaque (one complex unknown per structurally distinct node), which suffices because both APIs must build the same node",
            "exp(i w) and exp(i) are opaque unit-modulus numbers (identity required polynomially in w, cos, sin)",
            "E4 hints (denominator polynomial D_L, constant c_L, limit value) come from sympy and are re-proved as lemmas",
        ],
        outside=["L > 10", "floating point", "threshold behaviour as a limit statement (encoded as B2*D = c z^L with D(0) > 0)"],
    )


if __name__ == "__main__":
    main()
