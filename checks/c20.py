"""C20  Phase-space boundary functions classify three-body kinematics correctly.

Encoded from /repo: Kibble.evaluate, Kallen.evaluate, is_within_phasespace,
compute_third_mandelstam (E1: SymPy tree -> z3 NRA).  DESIGN.md section 4, C20.
"""

from __future__ import annotations

import itertools
from fractions import Fraction

import sympy as sp
import z3

from vf.core import Ctx
from vf.harness import Check
from vf.solve import Obligation, discharge, identity_obligations, side_obligations
from vf.sym2smt import Translator


def _lib():
    from ampform.kinematics import phasespace as ps

    return ps


def _num(expr, subs, prec=40):
    return sp.N(expr.xreplace(subs), prec)


def _rat(q: Fraction):
    return sp.Rational(q.numerator, q.denominator)


# Structural specialisations of the mass arguments (the same Symbol passed twice, a literal 0):
# the functions are plain Python over SymPy objects, so these are distinct *programs*.
PATTERNS = {
    "generic": ("m1", "m2", "m3"),
    "m1=m2": ("ma", "ma", "m3"),
    "m2=m3": ("m1", "ma", "ma"),
    "m1=m3": ("ma", "m2", "ma"),
    "all-equal": ("ma", "ma", "ma"),
    "m1=0": (0, "m2", "m3"),
    "m2=0": ("m1", 0, "m3"),
    "m3=0": ("m1", "m2", 0),
    "m2=m3=0": ("m1", 0, 0),
    "m1=m2,m3=0": ("ma", "ma", 0),
}


def _mass_args(pattern):
    return [sp.Integer(0) if p == 0 else sp.Symbol(p, real=True) for p in PATTERNS[pattern]]


# --------------------------------------------------------------------------- events
def cfg_events(config, tier, seed):
    """All physical events, through rest-frame invariants (E1,E2,E3,a,b,c)."""
    ps = _lib()
    pattern = config.split(":")[1] if ":" in config else "generic"
    ctx = Ctx(config)
    E = [ctx.real(f"E{i}") for i in (1, 2, 3)]
    a, b, c = ctx.real("a"), ctx.real("b"), ctx.real("c")  # |p1|^2, |p2|^2, p1.p2
    p3sq = a + b + 2 * c
    psq = [a, b, p3sq]
    for i in range(3):
        ctx.assume(E[i] > 0)
        ctx.assume(psq[i] >= 0)
        ctx.assume(E[i] * E[i] >= psq[i])
    ctx.assume(c * c <= a * b)  # Cauchy-Schwarz: the only constraint between |p1|,|p2|,p1.p2
    # library symbols
    s1, s2, m0, outside = sp.symbols("sigma1 sigma2 m0 outside", real=True)
    m1, m2, m3 = _mass_args(pattern)
    tr = Translator(ctx, use_assumptions=False)
    mv = []
    for i, ms in enumerate((m1, m2, m3)):
        if ms == 0:
            ctx.assume(E[i] * E[i] == psq[i])
            continue
        v = ctx.real(str(ms), derived=True)
        ctx.assume(z3.And(v >= 0, v * v == E[i] * E[i] - psq[i]))
        mv.append(v)
    v0 = ctx.real("m0", derived=True)
    ctx.assume(v0 == E[0] + E[1] + E[2])
    vs1, vs2 = ctx.real("sigma1", derived=True), ctx.real("sigma2", derived=True)
    ctx.assume(vs1 == (E[1] + E[2]) * (E[1] + E[2]) - a)  # (p2+p3)^2, p2+p3 = -p1
    ctx.assume(vs2 == (E[0] + E[2]) * (E[0] + E[2]) - b)  # (p1+p3)^2
    true_s3 = (E[0] + E[1]) * (E[0] + E[1]) - p3sq  # (p1+p2)^2
    lib_s3 = ps.compute_third_mandelstam(s1, s2, m0, m1, m2, m3)
    kib = ps.Kibble(s1, s2, lib_s3, m0, m1, m2, m3)
    ind = ps.is_within_phasespace(s1, s2, m0, m1, m2, m3, outside_value=outside)
    V_s3 = tr(lib_s3)
    V_k = tr(kib.doit())
    V_ind = tr(ind.doit())
    obs = [
        Obligation("third-mandelstam==(p1+p2)^2", V_s3.real_term_nodiv() == true_s3),
        Obligation("kibble<=0", V_k.le(0), "inequality"),
    ]
    obs += identity_obligations("indicator==1", V_ind, ctx.const(1))

    def replay(name, asg):
        Ev = [asg[f"E{i}"] for i in (1, 2, 3)]
        av, bv, cv = asg["a"], asg["b"], asg["c"]
        p3 = av + bv + 2 * cv
        msq = [Ev[0] ** 2 - av, Ev[1] ** 2 - bv, Ev[2] ** 2 - p3]
        subs = {
            m0: _rat(sum(Ev)),
            **{ms: sp.sqrt(_rat(q)) for ms, q in zip((m1, m2, m3), msq) if ms != 0},
            s1: _rat((Ev[1] + Ev[2]) ** 2 - av),
            s2: _rat((Ev[0] + Ev[2]) ** 2 - bv),
            outside: sp.Integer(-7),
        }
        true3 = (Ev[0] + Ev[1]) ** 2 - p3
        got3 = _num(lib_s3, subs)
        kv = _num(kib.doit(), subs)
        iv = _num(ind.doit(), subs)
        bad = {
            "third-mandelstam==(p1+p2)^2": abs(got3 - _rat(true3)) > sp.Float("1e-25") * (1 + abs(got3)),
            "kibble<=0": kv > sp.Float("1e-25") * (1 + abs(kv)),
        }.get(name.split("::")[0], iv != 1)
        return {"reproduced": bool(bad), "sigma3": str(got3), "true": str(true3), "kibble": str(kv), "ind": str(iv)}

    return discharge(ctx, obs + side_obligations(ctx), config=config, replay=replay, timeout_s=20)


# --------------------------------------------------------------------------- plane
def _pdg_squared_form(s1, s2, q0, q1, q2, q3):
    """PDG Dalitz limits for sigma2 at fixed sigma1, radicals squared out (q_i = m_i^2).

    sigma2 in [(E1*+E3*)^2-(k1+k3)^2, (E1*+E3*)^2-(k1-k3)^2] in the (23) rest frame
    <=> (2 s1 (s2-q1-q3) - (q0-s1-q1)(s1-q2+q3))^2 <= lambda(q0,s1,q1) lambda(s1,q2,q3).
    """

    def lam(x, y, z):
        return x * x + y * y + z * z - 2 * x * y - 2 * y * z - 2 * z * x

    lhs = 2 * s1 * (s2 - q1 - q3) - (q0 - s1 - q1) * (s1 - q2 + q3)
    return lhs * lhs <= lam(q0, s1, q1) * lam(s1, q2, q3)


def cfg_plane(config, tier, seed):
    ps = _lib()
    pattern = config.split(":")[1] if ":" in config else "generic"
    ctx = Ctx(config)
    s1, s2, m0, outside = sp.symbols("sigma1 sigma2 m0 outside", real=True)
    m1, m2, m3 = _mass_args(pattern)
    tr = Translator(ctx, use_assumptions=False)
    z = {str(s): ctx.real(str(s)) for s in (s1, s2, m0, outside)}
    zm0 = z["m0"]
    zm1, zm2, zm3 = (z3.RealVal(0) if ms == 0 else ctx.real(str(ms)) for ms in (m1, m2, m3))
    ctx.assume(z3.And(zm1 >= 0, zm2 >= 0, zm3 >= 0, zm0 > zm1 + zm2 + zm3))
    zs1, zs2 = z["sigma1"], z["sigma2"]
    # bounding box
    ctx.assume(z3.And(zs1 >= (zm2 + zm3) * (zm2 + zm3), zs1 <= (zm0 - zm1) * (zm0 - zm1)))
    ctx.assume(z3.And(zs2 >= (zm1 + zm3) * (zm1 + zm3), zs2 <= (zm0 - zm2) * (zm0 - zm2)))
    ctx.assume(zs1 > 0)  # massless 2+3 at sigma1=0: PDG frame undefined (listed as outside)
    kib = ps.Kibble(s1, s2, ps.compute_third_mandelstam(s1, s2, m0, m1, m2, m3), m0, m1, m2, m3)
    ind = ps.is_within_phasespace(s1, s2, m0, m1, m2, m3, outside_value=outside)
    V_k = tr(kib.doit())
    V_ind = tr(ind.doit())
    inside = _pdg_squared_form(zs1, zs2, zm0 * zm0, zm1 * zm1, zm2 * zm2, zm3 * zm3)
    lib_inside = V_k.le(0)
    ind_term = V_ind.real_term_nodiv()
    obs = [
        Obligation("kibble<=0 => between PDG limits", z3.Implies(lib_inside, inside), "inequality"),
        Obligation("between PDG limits => kibble<=0", z3.Implies(inside, lib_inside), "inequality"),
        Obligation("indicator==1 iff between limits", z3.Implies(inside, ind_term == 1), "identity"),
        Obligation("indicator==outside_value otherwise", z3.Implies(z3.Not(inside), ind_term == z["outside"]), "identity"),
    ]

    def replay(name, asg):
        subs = {s: _rat(asg[str(s)]) for s in (s1, s2, m0, outside)}
        subs.update({ms: _rat(asg[str(ms)]) for ms in (m1, m2, m3) if ms != 0})
        kv = _num(kib.doit(), subs)
        iv = _num(ind.doit(), subs)
        q = [asg["m0"] ** 2] + [Fraction(0) if ms == 0 else asg[str(ms)] ** 2 for ms in (m1, m2, m3)]
        ins = bool(_pdg_squared_form(asg["sigma1"], asg["sigma2"], *q))
        lib_in = bool(kv <= 0)
        if name.startswith("indicator==1"):
            bad = ins and iv != 1
        elif name.startswith("indicator==outside"):
            bad = (not ins) and iv != subs[outside]
        else:
            bad = ins != lib_in
        return {"reproduced": bool(bad), "kibble": str(kv), "indicator": str(iv), "between_pdg_limits": ins}

    return discharge(ctx, obs, config=config, replay=replay, timeout_s=20)


# --------------------------------------------------------------------------- Kallen
def cfg_kallen(config, tier, seed):
    ps = _lib()
    ctx = Ctx("kallen")
    x, y, zz, u, w = sp.symbols("x y z u w", real=True)
    tr = Translator(ctx, use_assumptions=False)
    base = tr(ps.Kallen(x, y, zz).doit())
    obs = []
    for perm in itertools.permutations((x, y, zz)):
        if perm == (x, y, zz):
            continue
        name = "symmetry" + "".join(map(str, perm))
        obs += identity_obligations(name, tr(ps.Kallen(*perm).doit()), base)
    ctx.assume(z3.And(ctx.real("u") >= 0, ctx.real("w") >= 0))
    fact = tr((x - (u + w) ** 2) * (x - (u - w) ** 2))
    obs += identity_obligations("factorisation", tr(ps.Kallen(x, u**2, w**2).doit()), fact)
    # literal-zero arguments (massless particle / threshold values inserted before unfolding)
    zero_cases = {}
    for mask in ((0, 1, 1), (1, 0, 1), (1, 1, 0), (0, 0, 1), (0, 1, 0), (1, 0, 0)):
        args = [a if keep else sp.Integer(0) for a, keep in zip((x, y, zz), mask)]
        name = "zero-args" + "".join(map(str, mask))
        ref = args[0] ** 2 + args[1] ** 2 + args[2] ** 2 - 2 * args[0] * args[1] - 2 * args[1] * args[2] - 2 * args[2] * args[0]
        zero_cases[name] = (ps.Kallen(*args), ref)
        obs += identity_obligations(name, tr(ps.Kallen(*args).doit()), tr(ref))

    def replay(name, asg):
        subs = {s: _rat(asg.get(str(s), Fraction(0))) for s in (x, y, zz, u, w)}
        if name.startswith("zero-args"):
            l, r = zero_cases[name.split("::")[0]]
            l = l.doit()
        elif name.startswith("factorisation"):
            l, r = ps.Kallen(x, u**2, w**2).doit(), (x - (u + w) ** 2) * (x - (u - w) ** 2)
        else:
            perm = [{"x": x, "y": y, "z": zz}[ch] for ch in name.split("::")[0][len("symmetry") :]]
            l, r = ps.Kallen(*perm).doit(), ps.Kallen(x, y, zz).doit()
        lv, rv = _num(l, subs), _num(r, subs)
        return {"reproduced": bool(abs(lv - rv) > sp.Float("1e-25") * (1 + abs(lv))), "lhs": str(lv), "rhs": str(rv)}

    return discharge(ctx, obs, config=config, replay=replay, timeout_s=60)


WORKERS = {"events": cfg_events, "plane": cfg_plane, "kallen": cfg_kallen}


def worker(config, tier, seed):
    return WORKERS[config.split(":")[0]](config, tier, seed)


def configs(tier):
    pats = list(PATTERNS) if tier == "thorough" else ["generic", "m2=m3", "all-equal", "m1=0", "m2=m3=0"]
    return [f"events:{p}" for p in pats] + [f"plane:{p}" for p in pats] + ["kallen"]


def main():
    ps = _lib()
    chk = Check("C20", __doc__)
    chk.run(worker, configs(chk.tier))
    chk.finish(
        functions=[ps.Kibble.evaluate, ps.Kallen.evaluate, ps.is_within_phasespace, ps.compute_third_mandelstam],
        bounds={"configurations": "every numeric input is a solver variable; enumerated: structural argument patterns "
                "(which mass arguments are the same Symbol / a literal 0) " + ", ".join(PATTERNS)},
        assumptions=[
            "events enter through rest-frame invariants (E1,E2,E3,|p1|^2,|p2|^2,p1.p2) with Cauchy-Schwarz; "
            "every function checked depends on the event through these only",
            "real-number semantics (no floating point)",
            "PDG limits used in root-free squared form; equivalence with the printed PDG formula is a two-line algebraic step (DESIGN.md C20)",
        ],
        outside=["sigma1 = 0 with massless particles 2 and 3 (PDG (23) rest frame undefined)", "floating-point rounding"],
        explanation="E1: SymPy trees emitted by ampform.kinematics.phasespace are translated to z3 nonlinear real "
        "arithmetic; each obligation is decided as unsat of its negation for all real values in the domain.",
    )


if __name__ == "__main__":
    main()
