"""C04  Unpolarised intensity is invariant under a global rotation of the event (narrow bound).

Encoded from /repo: the NumPy code of model.kinematic_variables (E2: compute_helicity_angles, BoostZMatrix,
RotationY/ZMatrix, ArrayMultiplication, Phi, Theta) composed with model.expression.doit() (E1).
Bound (DESIGN.md section 4, C04): the EVENT is a concrete rational event; the rotation angle about a
coordinate axis (cos w, sin w) = ((1-t^2)/(1+t^2), 2t/(1+t^2)) and all couplings are solver variables.
All radicals are exact generators; radicands are polynomials in t, perfect-square factors are
extracted with SymPy's square-free factorisation over Q[t] (each factor without real roots has constant
sign).  Obligation:  I(t; couplings) == I(0; couplings)  for all t and all couplings.
"""

from __future__ import annotations

import random
from fractions import Fraction

import numpy as np
import sympy as sp

from vf.core import B1, ZERO, Ctx, Unsupported, V
from vf.harness import Check
from vf.solve import Result, discharge, identity_obligations, merge_lemma_obligations
from vf.sym2smt import Translator
from vf.symnp import generated_source, sym_exec

REACTIONS = {
    "J/psi->gamma pi0 pi0 (f0,f2)": dict(initial_state=("J/psi(1S)", [-1, 0, +1]), final_state=["gamma", "pi0", "pi0"],
                                        allowed_intermediate_particles=["f(0)(980)", "f(2)(1270)"], allowed_interaction_types=["strong", "EM"]),
    "J/psi->gamma pi0 pi0 (f0)": dict(initial_state=("J/psi(1S)", [-1, 0, +1]), final_state=["gamma", "pi0", "pi0"],
                                     allowed_intermediate_particles=["f(0)(980)"], allowed_interaction_types=["strong", "EM"]),
    "J/psi->pi0 pi+ pi- (rho+)": dict(initial_state=("J/psi(1S)", [-1, 0, +1]), final_state=["pi0", "pi+", "pi-"],
                                     allowed_intermediate_particles=["rho(770)+"], allowed_interaction_types=["strong"]),
    "J/psi->pi0 pi+ pi- (rho0)": dict(initial_state=("J/psi(1S)", [-1, 0, +1]), final_state=["pi0", "pi+", "pi-"],
                                     allowed_intermediate_particles=["rho(770)0"], allowed_interaction_types=["strong"]),
    "J/psi->pi0 pi+ pi- (rho+,rho-)": dict(initial_state=("J/psi(1S)", [-1, 0, +1]), final_state=["pi0", "pi+", "pi-"],
                                          allowed_intermediate_particles=["rho(770)+", "rho(770)-"], allowed_interaction_types=["strong"]),
    "J/psi->pi0 pi+ pi- (rho+,rho0)": dict(initial_state=("J/psi(1S)", [-1, 0, +1]), final_state=["pi0", "pi+", "pi-"],
                                          allowed_intermediate_particles=["rho(770)+", "rho(770)0"], allowed_interaction_types=["strong"]),
    "J/psi->pi0 pi+ pi- (rho+,rho0,rho-)": dict(initial_state=("J/psi(1S)", [-1, 0, +1]), final_state=["pi0", "pi+", "pi-"],
                                               allowed_intermediate_particles=["rho(770)"], allowed_interaction_types=["strong"]),
}  # fmt: skip


def make_event(seed, k):
    """rational three-body event in the rest frame, generic orientation"""
    rng = random.Random(1000 * seed + k)

    def q():
        return Fraction(rng.choice([-1, 1]) * rng.randint(2, 9), rng.choice([5, 7, 10, 11]))

    p1, p2 = [q(), q(), q()], [q(), q(), q()]
    p3 = [-(a + b) for a, b in zip(p1, p2)]
    out = []
    for p in (p1, p2, p3):
        n2 = sum(c * c for c in p)
        E = Fraction(int(float(n2) ** 0.5 * 10) + 3 + rng.randint(0, 4), 10)  # E > |p|
        out.append([E, *p])
    return out


def rotated(ctx, event, axis, tz):
    d = ctx.atom(1 + tz * tz, True)
    cos = V(ctx, {B1: (1 - tz * tz, ZERO)}, {d: 1})
    sin = V(ctx, {B1: (2 * tz, ZERO)}, {d: 1})
    arrays = []
    for E, x, y, z in event:
        E, x, y, z = (ctx.const(v) for v in (E, x, y, z))
        if axis == "z":
            x, y = cos * x - sin * y, sin * x + cos * y
        elif axis == "y":
            z, x = cos * z - sin * x, sin * z + cos * x
        else:
            y, z = cos * y - sin * z, sin * y + cos * z
        arr = np.empty((1, 4), dtype=object)
        arr[0, :] = [E, x, y, z]
        arrays.append(arr)
    return arrays


def constant_arrays(ctx, event):
    arrays = []
    for vec in event:
        arr = np.empty((1, 4), dtype=object)
        arr[0, :] = [ctx.const(v) for v in vec]
        arrays.append(arr)
    return arrays


def worker(config, tier, seed):
    try:
        return run(config, tier, seed)
    except Unsupported as exc:
        return [Result(name="encode", kind="identity", status="unknown", config=config["name"], detail=f"Unsupported: {exc}")]


def run(config, tier, seed):
    import logging

    import qrules

    import ampform
    from ampform.kinematics.lorentz import create_four_momentum_symbols

    logging.getLogger().setLevel(logging.ERROR)
    reaction = qrules.generate_transitions(**REACTIONS[config["reaction"]], formalism=config.get("formalism", "helicity"), number_of_threads=1)
    model = ampform.get_builder(reaction).formulate()
    expr = model.expression.doit()
    momenta = create_four_momentum_symbols(reaction.transitions[0].topology)
    args = [momenta[i] for i in sorted(momenta)]
    needed = sorted((s_ for s_ in expr.free_symbols if s_ in model.kinematic_variables), key=str)
    event = make_event(seed, config["event"])
    ctx = Ctx(config["name"])
    tz = ctx.real("t")
    ctx.univariate = (tz, sp.Symbol("t"))
    sources = {}
    for sym in needed:
        fn, src = generated_source(args, model.kinematic_variables[sym].doit(), cse=True)
        sources[sym] = (fn, src)

    def intensity(arrays):
        vals = {}
        for sym in needed:
            out = sym_exec(ctx, sources[sym][1], arrays, radicands="assume")[0]
            vals[sym] = out
        tr = Translator(ctx, symbol_values=vals, complex_symbols=lambda s_: s_.name.startswith(("C_", "H_")))
        return tr(expr).normalized(), tr

    I_t, tr = intensity(rotated(ctx, event, config["axis"], tz))
    I_0, _ = intensity(constant_arrays(ctx, event))
    obs = merge_lemma_obligations(ctx) + identity_obligations(f"I(rotated about {config['axis']}) == I(unrotated)", I_t, I_0)

    def replay(name, asg):
        import warnings

        t_val = float(asg["t"])
        w = 2 * np.arctan(t_val)
        c, s_ = np.cos(w), np.sin(w)
        R = {"z": np.array([[c, -s_, 0], [s_, c, 0], [0, 0, 1]]), "y": np.array([[c, 0, s_], [0, 1, 0], [-s_, 0, c]]), "x": np.array([[1, 0, 0], [0, c, -s_], [0, s_, c]])}[config["axis"]]
        ev0 = [np.array([[float(v) for v in vec]]) for vec in event]
        ev1 = [np.array([[float(vec[0]), *(R @ np.array([float(v) for v in vec[1:]]))]]) for vec in event]
        couplings = {}
        for sym in sorted(expr.free_symbols - set(needed), key=str):
            nm = str(sym)
            couplings[sym] = complex(float(asg.get(f"re[{nm}]", 1)), float(asg.get(f"im[{nm}]", 0)))
        f_int = sp.lambdify([*needed, *couplings], expr, "numpy")
        vals = []
        with warnings.catch_warnings():
            warnings.simplefilter("ignore")
            for ev in (ev0, ev1):
                kin = [complex(np.asarray(sources[sym][0](*ev)).ravel()[0]).real for sym in needed]
                vals.append(complex(f_int(*kin, *couplings.values())))
        d = abs(vals[0] - vals[1])
        return {"reproduced": bool(d > 1e-8 * (1 + abs(vals[0]))), "I_unrotated": str(vals[0]), "I_rotated": str(vals[1]), "rotation_angle": w, "axis": config["axis"]}

    res = discharge(ctx, obs, config=config["name"], replay=replay, timeout_s=config.get("timeout", 120), hunt_rounds=0)
    for r in res:
        if r.status == "sat":
            r.selector = f"{config['reaction']}|axis={config['axis']}::rotation dependence"  # both formalisms share the selector
    return res


def configs(tier):
    out = []
    # the spin-2 reaction needs minutes per configuration with irreducible-factor generators: thorough tier, fewer events
    reactions = list(REACTIONS) if tier == "thorough" else ["J/psi->gamma pi0 pi0 (f0)", "J/psi->pi0 pi+ pi- (rho+)", "J/psi->pi0 pi+ pi- (rho0)", "J/psi->pi0 pi+ pi- (rho+,rho-)", "J/psi->pi0 pi+ pi- (rho+,rho0)"]
    events = range(2) if tier == "quick" else range(6)
    for r in reactions:
        for axis in ("x", "y", "z"):
            for k in events:
                if "f0,f2" in r and k > 0:
                    continue
                if "rho+,rho-" in r or (tier == "thorough" and "rho" in r):
                    out.append({"name": f"{r}|canonical|axis={axis}|event#{k}", "reaction": r, "axis": axis, "event": k, "formalism": "canonical-helicity", "config_timeout": 900})
                out.append({"name": f"{r}|axis={axis}|event#{k}", "reaction": r, "axis": axis, "event": k, "config_timeout": 2400 if "f0,f2" in r else 900, "timeout": 900 if "f0,f2" in r else 120})
    return out


def main():
    from ampform.kinematics import angles

    chk = Check("C04", __doc__)
    from vf.symnp import validate_shim

    chk.errors += [f"E2 shim disagrees with NumPy: {e}" for e in validate_shim(chk.seed)]
    chk.run(worker, configs(chk.tier))
    chk.finish(
        functions=[angles.compute_helicity_angles, angles.Phi.evaluate, angles.Theta.evaluate],
        bounds={"events": "2 (6 thorough; 1 for the spin-2 reaction) rational events per reaction, generated from VERIF_SEED", "rotations": "about x, y, z by any angle (t = tan(w/2))",
                "reactions": [c for c in REACTIONS], "spins": "integer spins only"},  # fmt: skip
        assumptions=["event concrete and rational; rotation angle and all couplings symbolic", "radicands of the generated code assumed >= 0 (they are squared norms)",
                     "perfect-square factors of radicands over Q[t] by SymPy's square-free factorisation; factors without real roots have constant sign"],  # fmt: skip
        outside=["other events", "rotations not about a coordinate axis", "half-integer spins", "aligned models (AxisAngleAlignment / DalitzPlotDecomposition)"],
    )


if __name__ == "__main__":
    main()
