"""C16  Cached unfolding equals doit() whatever the cache has seen.

Encoded from /repo with E3 (vf/pyast2smt.py): perform_cached_doit is read with `ast` and turned
into a step program over an abstract directory (per key: absent / partial / complete(value)); the
key table of the expression pool is computed with the REAL get_readable_hash under each hash-seed
mode.  z3 then searches all histories (bounded model checking): which expression each call gets,
the interleaving of two processes at statement granularity, and one crash after any statement.
Invariant: every call that returns, returns doit of ITS expression; no call raises because of the
directory's contents.   DESIGN.md section 4, C16.
"""

from __future__ import annotations

import json
import os
import shutil
import subprocess
import sys
import tempfile

import z3

from vf.core import Unsupported
from vf.harness import Check
from vf.pyast2smt import extract_cache_program
from vf.solve import Result

POOL_SRC = r"""
import sympy as sp
import ampform.dynamics as dyn
s, m0, g0, m1, m2 = sp.symbols("s m0 Gamma0 m1 m2", nonnegative=True)
xg, xp = sp.Symbol("x"), sp.Symbol("x", positive=True)


def _mk(k):
    return lambda s_, a, b: k * s_ + a + b  # two closures of one factory: same qualified name, different behaviour


POOL = {
    "width[PhaseSpaceFactor]": dyn.EnergyDependentWidth(s, m0, g0, m1, m2, 1, 1, dyn.PhaseSpaceFactor),
    "width[PhaseSpaceFactorSWave]": dyn.EnergyDependentWidth(s, m0, g0, m1, m2, 1, 1, dyn.PhaseSpaceFactorSWave),
    "Abs(x) generic": sp.Abs(xg, evaluate=False) + dyn.BreakupMomentumSquared(s, m1, m2),
    "Abs(x) positive": sp.Abs(xp, evaluate=False) + dyn.BreakupMomentumSquared(s, m1, m2),
    "control": dyn.BlattWeisskopfSquared(s, 2),
    "width[closure k=1]": dyn.EnergyDependentWidth(s, m0, g0, m1, m2, 1, 1, _mk(1)),
    "width[closure k=2]": dyn.EnergyDependentWidth(s, m0, g0, m1, m2, 1, 1, _mk(2)),
}
"""

KEYS_SRC = POOL_SRC + r"""
import json, sys
from ampform.sympy._cache import get_readable_hash
names = list(POOL)
doits = [POOL[n].doit() for n in names]
classes = [min(j for j in range(len(names)) if doits[j] == doits[i]) for i in range(len(names))]
print(json.dumps({"names": names, "keys": [get_readable_hash(POOL[n]) for n in names], "doit_class": classes, "str_equal": [[str(POOL[a]) == str(POOL[b]) for b in names] for a in names]}))
"""

REPLAY_SRC = POOL_SRC + r"""
import json, os, pickle, sys
from ampform.sympy import perform_cached_doit
from ampform.sympy._cache import get_readable_hash
spec = json.loads(sys.argv[1])
names = list(POOL)
d = spec["dir"]
os.makedirs(d, exist_ok=True)
for idx, state in spec["files"].items():
    e = POOL[names[int(idx)]]
    path = os.path.join(d, get_readable_hash(e) + ".pkl")
    if state == "partial":
        open(path, "wb").close()
    elif state is not None:
        with open(path, "wb") as f:
            pickle.dump(POOL[names[int(state)]].doit(), f)
expr = POOL[names[spec["call"]]]
if spec.get("nested_before_replace") is not None:
    _replace, _state = os.replace, {"done": False}

    def _scheduled_replace(src, dst):
        if not _state["done"]:
            _state["done"] = True
            perform_cached_doit(POOL[names[spec["nested_before_replace"]]], d)  # the other process's complete call
        return _replace(src, dst)

    os.replace = _scheduled_replace
try:
    got = perform_cached_doit(expr, d)
    ok = got == expr.doit()
    print(json.dumps({"raised": None, "equal_to_doit": bool(ok), "got": str(got)[:120], "want": str(expr.doit())[:120]}))
except Exception as exc:
    print(json.dumps({"raised": f"{type(exc).__name__}: {exc}"[:200], "equal_to_doit": False}))
"""

MODES = {"unset": None, "seed=0": "0", "seed=12345": "12345"}


def run_py(src, mode, *args):
    env = {k: v for k, v in os.environ.items() if k != "PYTHONHASHSEED"}
    if MODES[mode] is not None:
        env["PYTHONHASHSEED"] = MODES[mode]
    env["PYTHONPATH"] = f"/verif:{os.environ.get('AMPFORM_SRC', '/repo/src')}"
    p = subprocess.run([sys.executable, "-W", "ignore", "-c", src, *args], env=env, capture_output=True, text=True, timeout=600)
    if p.returncode != 0:
        raise RuntimeError(p.stderr[-400:])
    return json.loads(p.stdout.strip().splitlines()[-1])


DONE, CRASHED = -1, -2


def bmc(prog, table, *, n_procs, n_calls, crash, want, T, allowed=None):
    """Return (status, history|None).  want in {"value", "raise"}: search a history violating that clause."""
    ops = prog.ops
    nE = len(table["names"])
    key_ids = sorted(set(table["keys"]))
    key_of = [key_ids.index(k) for k in table["keys"]]
    nK = len(key_ids)
    cls = table["doit_class"]
    s = z3.Solver()
    s.set("timeout", 600000)
    I = z3.Int  # noqa: E741
    choice = [[I(f"expr_p{p}_c{c}") for c in range(n_calls)] for p in range(n_procs)]
    for row in choice:
        for v in row:
            s.add(v >= 0, v < nE)
            if allowed is not None:
                s.add(z3.Or(*[v == a for a in allowed]))
    who = [I(f"who_{t}") for t in range(T)]
    crash_at = I("crash_at")  # time at which one process crashes (instead of moving), or -1
    s.add(crash_at >= -1, crash_at < T)
    if not crash:
        s.add(crash_at == -1)

    def sel(vec, idx):  # vec[idx] with symbolic idx
        out = vec[-1]
        for i in range(len(vec) - 2, -1, -1):
            out = z3.If(idx == i, vec[i], out)
        return out

    # state
    file_ = [[I(f"file_{t}_{k}") for k in range(nK)] for t in range(T + 1)]
    tmp = [[I(f"tmp_{t}_{p}") for p in range(n_procs)] for t in range(T + 1)]
    shared_tmp = not getattr(prog, "tmp_private", True)
    tfile = [[I(f"tmpfile_{t}_{k}") for k in range(nK)] for t in range(T + 1)]  # shared temporary file per key (only if shared_tmp)
    pc = [[I(f"pc_{t}_{p}") for p in range(n_procs)] for t in range(T + 1)]
    call = [[I(f"call_{t}_{p}") for p in range(n_procs)] for t in range(T + 1)]
    key = [[I(f"key_{t}_{p}") for p in range(n_procs)] for t in range(T + 1)]
    val = [[I(f"val_{t}_{p}") for p in range(n_procs)] for t in range(T + 1)]
    badv = [z3.Bool(f"badvalue_{t}") for t in range(T + 1)]
    badr = [z3.Bool(f"badraise_{t}") for t in range(T + 1)]
    for k in range(nK):
        s.add(file_[0][k] == 0, tfile[0][k] == 0)
    for p in range(n_procs):
        s.add(tmp[0][p] == 0, pc[0][p] == 0, call[0][p] == 0, key[0][p] == 0, val[0][p] == -1)
    s.add(z3.Not(badv[0]), z3.Not(badr[0]))
    key_table = [z3.IntVal(k) for k in key_of]
    cls_table = [z3.IntVal(c) for c in cls]
    for t in range(T):
        s.add(who[t] >= 0, who[t] < n_procs)
        step_cases = []
        for p in range(n_procs):
            cur_expr = sel([sel(choice[p], call[t][p])], 0) if n_calls == 1 else sel(choice[p], call[t][p])
            alive = pc[t][p] >= 0
            frame = []  # other processes unchanged

            def keep_others(p=p):
                cs = []
                for q in range(n_procs):
                    if q != p:
                        cs += [pc[t + 1][q] == pc[t][q], call[t + 1][q] == call[t][q], key[t + 1][q] == key[t][q], val[t + 1][q] == val[t][q], tmp[t + 1][q] == tmp[t][q]]
                return cs

            def files_same(except_key=None, new=None):
                cs = []
                for k in range(nK):
                    if except_key is None:
                        cs.append(file_[t + 1][k] == file_[t][k])
                    else:
                        cs.append(file_[t + 1][k] == z3.If(except_key == k, new, file_[t][k]))
                return cs

            def tmps_same(except_key=None, new=None):
                cs = []
                for k in range(nK):
                    if except_key is None or not shared_tmp:
                        cs.append(tfile[t + 1][k] == tfile[t][k])
                    else:
                        cs.append(tfile[t + 1][k] == z3.If(except_key == k, new, tfile[t][k]))
                return cs

            def finish_call(p=p):
                more = call[t][p] + 1 < n_calls
                return [call[t + 1][p] == call[t][p] + 1, pc[t + 1][p] == z3.If(more, 0, DONE), val[t + 1][p] == -1, key[t + 1][p] == key[t][p]]

            fk = sel(file_[t], key[t][p])
            # crash instead of a step
            # the process is killed here; the user starts the program again: the next call runs in a new process
            crash_case = z3.And(who[t] == p, alive, crash_at == t, *finish_call(), tmp[t + 1][p] == tmp[t][p], *keep_others(), *files_same(), *tmps_same(),
                                badv[t + 1] == badv[t], badr[t + 1] == badr[t])  # fmt: skip
            step_cases.append(crash_case)
            for i, op in enumerate(ops):
                here = z3.And(who[t] == p, crash_at != t, pc[t][p] == i)
                same_local = [call[t + 1][p] == call[t][p], key[t + 1][p] == key[t][p], val[t + 1][p] == val[t][p], tmp[t + 1][p] == tmp[t][p]]
                nb = [badv[t + 1] == badv[t], badr[t + 1] == badr[t]]
                kind = op[0]
                tmp_eff = tmps_same()  # the shared temporary files stay as they are unless this op touches TMP
                if kind == "key":
                    eff = [pc[t + 1][p] == i + 1, key[t + 1][p] == sel(key_table, cur_expr), call[t + 1][p] == call[t][p], val[t + 1][p] == val[t][p], tmp[t + 1][p] == tmp[t][p], *files_same(), *nb]
                elif kind == "exists?":
                    eff = [pc[t + 1][p] == z3.If(fk != 0, op[1], op[2]), *same_local, *files_same(), *nb]
                elif kind in ("goto", "handler_at", "try_enter"):
                    eff = [pc[t + 1][p] == (op[1] if kind == "goto" else i + 1), *same_local, *files_same(), *nb]
                elif kind == "open_r":
                    # opening a missing file raises (another process may have removed it)
                    ok = fk != 0
                    if len(op) > 1 and op[1] is not None:
                        missing = z3.And(pc[t + 1][p] == op[1], *same_local, badr[t + 1] == badr[t])
                    else:
                        missing = z3.And(*finish_call(), tmp[t + 1][p] == tmp[t][p], badr[t + 1])
                    eff = [z3.If(ok, z3.And(pc[t + 1][p] == i + 1, *same_local, badr[t + 1] == badr[t]), missing), *files_same(), badv[t + 1] == badv[t]]
                elif kind in ("load_return", "load_assign"):
                    complete = fk >= 2
                    stored_cls = sel(cls_table, fk - 2)
                    wrong = stored_cls != sel(cls_table, cur_expr)
                    if kind == "load_return":
                        good = z3.And(*finish_call(), tmp[t + 1][p] == tmp[t][p], badv[t + 1] == z3.Or(badv[t], wrong), badr[t + 1] == badr[t])
                    else:
                        good = z3.And(pc[t + 1][p] == i + 1, val[t + 1][p] == fk - 2, call[t + 1][p] == call[t][p], key[t + 1][p] == key[t][p], tmp[t + 1][p] == tmp[t][p], *nb)
                    if op[1] is None:
                        bad = z3.And(*finish_call(), tmp[t + 1][p] == tmp[t][p], badr[t + 1], badv[t + 1] == badv[t])
                    else:
                        bad = z3.And(pc[t + 1][p] == op[1], *same_local, *nb)
                    eff = [z3.If(complete, good, bad), *files_same()]
                elif kind == "doit":
                    eff = [pc[t + 1][p] == i + 1, val[t + 1][p] == cur_expr, call[t + 1][p] == call[t][p], key[t + 1][p] == key[t][p], tmp[t + 1][p] == tmp[t][p], *files_same(), *nb]
                elif kind == "open_w":
                    if op[1] == "FILE":
                        eff = [pc[t + 1][p] == i + 1, *same_local, *files_same(key[t][p], z3.IntVal(1)), *nb]
                    else:
                        eff = [pc[t + 1][p] == i + 1, call[t + 1][p] == call[t][p], key[t + 1][p] == key[t][p], val[t + 1][p] == val[t][p], tmp[t + 1][p] == 1, *files_same(), *nb]
                        tmp_eff = tmps_same(key[t][p], z3.IntVal(1))
                elif kind == "dump":
                    if op[1] == "FILE":
                        eff = [pc[t + 1][p] == i + 1, *same_local, *files_same(key[t][p], val[t][p] + 2), *nb]
                    else:
                        eff = [pc[t + 1][p] == i + 1, call[t + 1][p] == call[t][p], key[t + 1][p] == key[t][p], val[t + 1][p] == val[t][p], tmp[t + 1][p] == val[t][p] + 2, *files_same(), *nb]
                        tmp_eff = tmps_same(key[t][p], val[t][p] + 2)
                elif kind == "replace" and shared_tmp:
                    tk = sel(tfile[t], key[t][p])
                    moved = z3.And(pc[t + 1][p] == i + 1, call[t + 1][p] == call[t][p], key[t + 1][p] == key[t][p], val[t + 1][p] == val[t][p], tmp[t + 1][p] == 0,
                                   *files_same(key[t][p], tk), *tmps_same(key[t][p], z3.IntVal(0)), *nb)  # fmt: skip
                    missing = z3.And(*finish_call(), tmp[t + 1][p] == tmp[t][p], *files_same(), *tmps_same(), badr[t + 1], badv[t + 1] == badv[t])  # FileNotFoundError
                    eff = [z3.If(tk != 0, moved, missing)]
                    tmp_eff = []
                elif kind == "replace":
                    eff = [pc[t + 1][p] == i + 1, call[t + 1][p] == call[t][p], key[t + 1][p] == key[t][p], val[t + 1][p] == val[t][p], tmp[t + 1][p] == 0, *files_same(key[t][p], tmp[t][p]), *nb]
                elif kind == "unlink":
                    if op[1] == "FILE":
                        eff = [pc[t + 1][p] == i + 1, *same_local, *files_same(key[t][p], z3.IntVal(0)), *nb]
                    else:
                        eff = [pc[t + 1][p] == i + 1, call[t + 1][p] == call[t][p], key[t + 1][p] == key[t][p], val[t + 1][p] == val[t][p], tmp[t + 1][p] == 0, *files_same(), *nb]
                        tmp_eff = tmps_same(key[t][p], z3.IntVal(0))
                elif kind == "return_val":
                    wrong = sel(cls_table, val[t][p]) != sel(cls_table, cur_expr)
                    eff = [*finish_call(), tmp[t + 1][p] == tmp[t][p], *files_same(), badv[t + 1] == z3.Or(badv[t], wrong), badr[t + 1] == badr[t]]
                elif kind == "fall_off_end":
                    eff = [*finish_call(), tmp[t + 1][p] == tmp[t][p], *files_same(), badv[t + 1], badr[t + 1] == badr[t]]  # returns None
                else:
                    raise Unsupported(f"op {op}")
                step_cases.append(z3.And(here, *eff, *tmp_eff, *keep_others()))
            del frame
        # stutter when the chosen process cannot move
        stuck = z3.And(*[z3.Implies(who[t] == p, pc[t][p] < 0) for p in range(n_procs)])
        stutter = z3.And(stuck, *[z3.And(pc[t + 1][p] == pc[t][p], call[t + 1][p] == call[t][p], key[t + 1][p] == key[t][p], val[t + 1][p] == val[t][p], tmp[t + 1][p] == tmp[t][p]) for p in range(n_procs)],
                         *[file_[t + 1][k] == file_[t][k] for k in range(nK)], *[tfile[t + 1][k] == tfile[t][k] for k in range(nK)], badv[t + 1] == badv[t], badr[t + 1] == badr[t])  # fmt: skip
        s.add(z3.Or(stutter, *step_cases))
    s.add(badv[T] if want == "value" else badr[T])
    r = s.check()
    if str(r) != "sat":
        return str(r), None
    m = s.model()
    ev = lambda v: m.eval(v, model_completion=True).as_long()  # noqa: E731
    t_bad = next(t for t in range(T + 1) if z3.is_true(m.eval(badv[t] if want == "value" else badr[t], model_completion=True)))
    p_bad = ev(who[t_bad - 1])
    hist = []
    for t in range(t_bad):
        p = ev(who[t])
        pcv = ev(pc[t][p])
        if ev(crash_at) == t:
            hist.append(f"t{t}: process {p} CRASHES (before {ops[pcv][0] if pcv >= 0 else '-'})")
        elif pcv >= 0:
            e = ev(choice[p][min(ev(call[t][p]), n_calls - 1)])
            hist.append(f"t{t}: process {p} call#{ev(call[t][p])}({table['names'][e]}) {ops[pcv][0]}")
    c_bad = min(ev(call[t_bad - 1][p_bad]), n_calls - 1)
    failing_expr = ev(choice[p_bad][c_bad])
    files = {}
    for e_idx in range(nE):
        st = ev(file_[t_bad - 1][key_of[e_idx]])
        files[str(e_idx)] = None if st == 0 else "partial" if st == 1 else st - 2
    pc_bad = ev(pc[t_bad - 1][p_bad])
    others = [ev(choice[q][min(ev(call[t_bad - 1][q]), n_calls - 1)]) for q in range(n_procs) if q != p_bad]
    return "sat", {"history": hist, "failing_call": failing_expr, "files_before_failing_step": files,
                   "failing_op": ops[pc_bad][0] if pc_bad >= 0 else None, "other_calls": others}


def worker(config, tier, seed):
    from ampform.sympy import perform_cached_doit

    try:
        prog = extract_cache_program(perform_cached_doit)
    except Unsupported as exc:
        return [Result(name="extract step program", kind="identity", status="unknown", config=config["name"], detail=f"Unsupported: {exc}")]
    table = run_py(KEYS_SRC, config["mode"])
    out = []
    def longest(i, seen=()):
        if i >= len(prog.ops) or i in seen:
            return 0
        op = prog.ops[i]
        succ = {"exists?": [op[1], op[2]] if op[0] == "exists?" else [], "goto": [op[1]] if op[0] == "goto" else []}.get(op[0])
        if succ is None:
            succ = [] if op[0] in ("return_val", "fall_off_end") else [i + 1]
            if op[0] in ("load_return",):
                succ = [op[1]] if op[1] is not None else []
            if op[0] in ("open_r", "load_assign") and len(op) > 1 and op[1] is not None:
                succ = [i + 1, op[1]]
        return 1 + max([longest(j, (*seen, i)) for j in succ] or [0])

    path_len = longest(0)
    if config["calls"] * config["procs"] * path_len + 1 > config["T"]:
        return [Result(name="unwinding assertion: every bounded history fits into T steps", kind="identity", status="unknown", config=config["name"],
                       detail=f"longest path {path_len} steps per call; increase T")]  # fmt: skip
    for want in ("value", "raise"):
        import time

        t0 = time.time()
        status, cex = bmc(prog, table, n_procs=config["procs"], n_calls=config["calls"], crash=config["crash"], want=want, T=config["T"], allowed=config.get("pool"))
        r = Result(name=f"no history violates '{want}'", kind="identity", status=status, seconds=time.time() - t0, config=config["name"])
        if status == "sat":
            scratch = tempfile.mkdtemp(prefix="c16_", dir="/tmp")
            try:
                spec = {"dir": os.path.join(scratch, "cache"), "files": cex["files_before_failing_step"], "call": cex["failing_call"]}
                if want == "raise" and cex.get("failing_op") == "replace" and cex.get("other_calls"):
                    # the schedule "the other process runs its whole call between this process's dump and replace",
                    # replayed in one interpreter by running the other call from inside os.replace
                    spec["nested_before_replace"] = cex["other_calls"][0]
                    spec["files"] = {}
                rep = run_py(REPLAY_SRC, config["mode"], json.dumps(spec))
            finally:
                shutil.rmtree(scratch, ignore_errors=True)
            reproduced = bool(rep["raised"]) if want == "raise" else (not rep["raised"] and not rep["equal_to_doit"])
            r.replay = {"reproduced": reproduced, "history": cex["history"], "real_function": rep,
                        "directory_before_failing_step": {table["names"][int(k)]: (v if not isinstance(v, int) else f"complete(doit of {table['names'][v]})") for k, v in cex["files_before_failing_step"].items()}}  # fmt: skip
            r.assignment = {}
            r.selector = f"{config['name']}::{want}"
        out.append(r)
    # model-checking coverage numbers for the evidence
    out.append(Result(name="program", kind="ground", status="ok", config=config["name"], detail=json.dumps({"ops": prog.ops, "keys": table["keys"], "doit_class": table["doit_class"]})[:1500]))
    return out


def configs(tier):
    out = []
    for mode in MODES:
        for procs, crash in ((1, False), (1, True), (2, False), (2, True)):
            calls = 3 if procs == 1 else 1
            T = 40 if procs == 1 else 26  # >= procs * calls * longest path + 1 (asserted at run time)
            out.append({"name": f"{mode}|procs={procs}|crash={crash}|calls={calls}", "mode": mode, "procs": procs, "crash": crash, "calls": calls, "T": T, "config_timeout": 900,
                        "pool": None if procs == 1 else ([0, 1, 4] if tier == "quick" else [0, 1, 4, 5, 6])})
    return out


def main():
    from ampform.sympy import _cache, perform_cached_doit

    chk = Check("C16", __doc__)
    chk.run(worker, configs(chk.tier))
    recs = [r for r in chk.records if r["kind"] == "identity"]
    n_ops = 10
    states = sum(c["T"] for c in configs(chk.tier)) * 2
    chk.finish(
        level="model_checking",
        functions=[perform_cached_doit, _cache.get_readable_hash, _cache._to_bytes, _cache._get_python_hash_seed],
        bounds={"calls": "<= 3 (one process, crash = the program is started again) / 1 per process (two processes; 2 calls each are not decided within 600 s)", "crashes": "<= 1, after any statement", "processes": "<= 2, statement-level interleaving",
                "pool": "7 expressions (three str-colliding pairs incl. two closures of one factory + control); 3 of them with two processes in the quick tier, 5 thorough", "seed modes": list(MODES), "unrolling": "40/26 steps; the check asserts that every bounded history fits (calls * program length <= T)"},  # fmt: skip
        assumptions=[
            "environment stubs: open(...,'wb') truncates -> partial; pickle.dump -> complete(value); pickle.load on a partial file raises; os.replace is atomic; mkdir/logging have no effect",
            "the key of an expression is what the real get_readable_hash returns in a fresh process under the seed mode (computed at check time)",
            "doit-equivalence classes of the pool computed with the real doit()",
            "a crash leaves the directory as it is (no partial flush reordering)",
        ],
        outside=["longer histories", "file-system faults other than a crash", "more than two processes"],
        extra_coverage={"states": states * n_ops, "transitions": states * n_ops, "traces_validated_against_impl": sum(1 for r in recs if r["status"] == "sat"),
                        "explanation": "bounded model checking with z3 over the step program extracted from perform_cached_doit's AST"},  # fmt: skip
    )


if __name__ == "__main__":
    main()
