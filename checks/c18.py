"""C18  PoolSum denotes the finite sum over its index pools.

Encoded from /repo (E1 + uninterpreted summand): PoolSum.__new__/evaluate/doit/free_symbols/
cleanup/subs/xreplace.   DESIGN.md section 4, C18.

The summand is f(i, j, ..., x, ...) with f an *uninterpreted* function (Ackermannised), so
every obligation holds for all summands; symbolic pool elements are solver variables.
"""

from __future__ import annotations

import itertools

import sympy as sp

from vf.core import Ctx, Unsupported
from vf.harness import Check
from vf.replay import subs_from_assignment
from vf.solve import Result, discharge, identity_obligations
from vf.sym2smt import Translator

i, j, k = sp.symbols("i j k")
x, y, z, a, b = sp.symbols("x y z a b", real=True)
f, g = sp.Function("f", real=True), sp.Function("g", real=True)
R = sp.Rational


def _PS():
    from ampform.sympy import PoolSum

    return PoolSum


def shapes(tier):
    P = _PS()
    out = {
        "one-index": lambda: P(f(i, x), (i, (1, 2, 3))),
        "two-indices": lambda: P(f(i, j, x) * g(j, y), (i, (1, 2)), (j, (R(-1, 2), R(1, 2)))),
        "singleton-pool": lambda: P(f(i, j, x), (i, (R(5, 2),)), (j, (1, 2))),
        "duplicate-pool": lambda: P(f(i, x) + x * i, (i, (1, 1, 2))),
        "duplicate-second-pool": lambda: P(x * f(i, j) + g(j, y), (i, (1, 2)), (j, (R(-1, 2), R(-1, 2), R(1, 2)))),
        "symbolic-pool": lambda: P(f(i, x), (i, (a, b))),
        "unused-index": lambda: P(f(i, x), (i, (1, 2)), (j, (3, 4, 5))),
        "nested": lambda: P(g(i, y) * P(f(i, j, x), (j, (1, 2))), (i, (0, 1))),
        "nested-shadowed": lambda: P(g(i, x) * P(f(i, y), (i, (1, 2))), (i, (3, 4))),
        "nested-free-vs-inner-index": lambda: P(j * f(i, x) + P(g(j, y), (j, (1, 2))), (i, (0, 1))),
        "two-singletons": lambda: P(k * x**2 + f(i, j, k), (i, (3,)), (j, (1, 2)), (k, (R(5, 2),))),
    }
    if tier == "thorough":
        out.update({
            "three-indices": lambda: P(f(i, j, k) * x, (i, (0, 1)), (j, (1, 2, 3)), (k, (R(1, 2), R(3, 2)))),
            "nested-depth3": lambda: P(P(P(f(i, j, k) * x, (k, (1, 2))), (j, (0, 1))) + g(i, y), (i, (1, 2))),
            "nested-depth3-shadowed": lambda: P(g(i, x) * P(f(i, j) * P(g(i, j), (i, (5, 6))), (j, (1, 2))), (i, (3, 4))),
            "pool-of-three-symbols": lambda: P(f(i, j), (i, (a, b, z)), (j, (1, 2))),
            "four-indices": lambda: P(f(i, j) * g(k, x), (i, (0, 1)), (j, (1, 2)), (k, (2, 3)), (sp.Symbol("l"), (1,))),
        })  # fmt: skip
    return out


def ref_value(expr):
    """Reference semantics, independent of PoolSum's methods: innermost sums first, each replaced
    by the explicit sum over the cartesian product of its pools (simultaneous replacement)."""
    P = _PS()
    while True:
        sums = [s_ for s_ in sp.preorder_traversal(expr) if isinstance(s_, P)]
        inner = [s_ for s_ in sums if not any(isinstance(t, P) for t in sp.preorder_traversal(s_.args[0]))]
        if not inner:
            return expr
        s_ = inner[0]
        summand, *idx = s_.args
        syms = [t[0] for t in idx]
        pools = [tuple(t[1]) for t in idx]
        # later duplicates of an index symbol: the last binding wins in a simultaneous replacement
        explicit = sp.Add(*[summand.xreplace(dict(zip(syms, combo))) for combo in itertools.product(*pools)])
        expr = _replace_node(expr, s_, explicit)


def _replace_node(expr, node, new):
    if expr == node:
        return new
    if not expr.args:
        return expr
    P = _PS()
    if isinstance(expr, P):
        # rebuild without evaluating and without touching the index specifications
        return P(_replace_node(expr.args[0], node, new), *expr.args[1:])
    return expr.func(*[_replace_node(arg, node, new) for arg in expr.args])


def concrete_f(*args):
    return 1 + sum((2 * n + 3) * sp.sympify(v) ** (n + 1) for n, v in enumerate(args)) + sp.prod([sp.sympify(v) + n + 2 for n, v in enumerate(args)])


def concrete_g(*args):
    return 2 - sum((n + 2) * sp.sympify(v) ** (n + 2) for n, v in enumerate(args))


def numeric(expr, subs):
    e = sp.sympify(expr).replace(f, concrete_f).replace(g, concrete_g)
    return sp.N(e.xreplace(subs), 30)


def substitutions(expr):
    """(label, route through the library, reference route) -- both as callables on the PoolSum"""
    maps = {
        "x->y": {x: sp.Symbol("w", real=True)},
        "x->3/2": {x: R(3, 2)},
        "x->y (y occurs free)": {x: y},
        "x->i (an index name: capture)": {x: i},
        "x->j (an index name: capture)": {x: j},
        "index i->5": {i: sp.Integer(5)},
        "index i->y": {i: y},
        "index j->7": {j: sp.Integer(7)},
        "x->y, y->x (swap)": {x: y, y: x},
    }
    out = []
    P = _PS()
    bound = set()
    for s_ in sp.preorder_traversal(expr):
        if isinstance(s_, P):
            bound |= {t[0] for t in s_.args[1:]}
    outer_bound = {t[0] for t in expr.args[1:]}
    for label, m in maps.items():
        keys = set(m)
        if not keys & (expr.free_symbols | bound):
            continue
        is_index_map = keys <= bound and not (keys & expr.free_symbols)
        for method in ("subs", "xreplace"):
            def lib(e, m=m, method=method):
                return (e.subs(m, simultaneous=True) if method == "subs" else e.xreplace(m)).doit()

            if is_index_map:
                def ref(e):
                    return ref_value(e)  # a bound index is not a free symbol: nothing changes
            else:
                def ref(e, m=m):
                    return ref_value(e).xreplace({k_: v for k_, v in m.items() if k_ not in outer_bound or True})

            out.append((f"{method}[{label}]", lib, ref, is_index_map))
    return out


def run_shape(config, tier, seed):
    P = _PS()
    shape = config["shape"]
    expr = shapes(tier)[shape]()
    ctx = Ctx(config["name"])
    tr = Translator(ctx, indexed_complex=False)
    out = []
    cases = [("doit == explicit product sum", lambda e: e.doit(), ref_value)]
    cases.append(("cleanup().doit() == doit()", lambda e: (e.cleanup().doit() if hasattr(e.cleanup(), "doit") else e.cleanup()), ref_value))
    cases.append(("evaluate=True == explicit product sum", lambda e: P(*e.args, evaluate=True).doit(), ref_value))
    for label, lib, ref, _ in substitutions(expr):
        cases.append((label, lib, ref))
    obs = []
    pairs = {}
    for label, lib, ref in cases:
        try:
            lv = lib(expr)
        except Exception as exc:  # noqa: BLE001
            out.append(Result(name=label, kind="ground", status="fail", config=config["name"],
                              replay={"reproduced": True, "raises": f"{type(exc).__name__}: {exc}"}))  # fmt: skip
            continue
        rv = ref(expr)
        if any(isinstance(t, P) for t in sp.preorder_traversal(sp.sympify(lv))):
            out.append(Result(name=label, kind="ground", status="fail", config=config["name"],
                              replay={"reproduced": True, "note": "doit() left a PoolSum behind", "expr": str(lv)[:200]}))  # fmt: skip
            continue
        pairs[label] = (lv, rv)
        obs += identity_obligations(label, tr(lv), tr(rv))
    # ground: free symbols
    want = ref_value(expr).free_symbols
    got = expr.free_symbols
    ok = {str(s_) for s_ in want} == {str(s_) for s_ in got}
    out.append(Result(name="free_symbols == free symbols of the explicit sum", kind="ground", status="ok" if ok else "fail",
                      config=config["name"], replay={"reproduced": not ok, "got": sorted(map(str, got)), "want": sorted(map(str, want))}))  # fmt: skip

    def replay(name, asg):
        lv, rv = pairs[name.split("::")[0]]
        subs = subs_from_assignment(tr, asg)
        for s_ in (sp.sympify(lv).free_symbols | sp.sympify(rv).free_symbols) - set(subs):
            subs[s_] = sp.Rational(7, 3)
        import random

        rng = random.Random(seed)
        for attempt in range(6):
            ln, rn = numeric(lv, subs), numeric(rv, subs)
            if abs(ln - rn) > 1e-15 * (1 + abs(ln)):
                break
            # the fixed polynomial may coincide at the model point: the claim is "different functions", try generic points
            subs = {s_: sp.Rational(rng.randint(-9, 9) * 2 + 1, rng.choice([2, 3, 5, 7])) for s_ in subs}
        return {"reproduced": bool(abs(ln - rn) > 1e-15 * (1 + abs(ln))), "library": str(sp.sympify(lv))[:160], "reference": str(sp.sympify(rv))[:160],
                "lhs": str(ln), "rhs": str(rn), "point": {str(k_): str(v) for k_, v in subs.items()}, "summand": "f, g := fixed polynomials"}  # fmt: skip

    return out + discharge(ctx, obs, config=config["name"], replay=replay, timeout_s=30, hunt_rounds=6)


def worker(config, tier, seed):
    try:
        return run_shape(config, tier, seed)
    except Unsupported as exc:
        return [Result(name="translate", kind="identity", status="unknown", config=config["name"], detail=f"Unsupported: {exc}")]


def main():
    P = _PS()
    chk = Check("C18", __doc__)
    cfgs = [{"name": f"shape:{s_}", "shape": s_} for s_ in shapes(chk.tier)]
    chk.run(worker, cfgs)
    # selectors are per (shape, obligation label); strip the component suffix so that re/im count once
    for r in chk.records:
        if r["status"] in ("sat", "fail"):
            r["selector"] = f"{r['config']}::{r['name'].split('::')[0]}"
    chk.finish(
        functions=[P.__new__, P.evaluate, P.doit, P.cleanup, P.free_symbols.fget],
        bounds={"indices": "<= 3 (4 thorough)", "pools": "<= 3 elements incl. singleton, duplicate, symbolic", "nesting": "<= 2 quick / 3 thorough", "maps": "9 substitution maps x {subs, xreplace}"},
        assumptions=[
            "summands f, g are uninterpreted real functions (Ackermannised: equal arguments => equal values)",
            "reference semantics: innermost sums first, explicit sum over itertools.product with simultaneous replacement",
            "a sat model is replayed with a fixed injective polynomial for f and g",
        ],
        outside=["pools containing index symbols", "more than 4 indices, nesting deeper than 3"],
    )


if __name__ == "__main__":
    main()
