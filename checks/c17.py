"""C17  rename_symbols is a consistent renaming of the whole model.

Encoded from /repo (E1): HelicityModel.rename_symbols, __collect_symbols, ParameterValues.
For a model M, a rename map r and the induced map sigma on solver variables (new name -> the
variable of the old name; merged names -> one variable):  M'.expression == M.expression o sigma,
every amplitude / component / kinematic-variable definition likewise, and M' with the carried-over
defaults == M with the originals.   DESIGN.md section 4, C17.
"""

from __future__ import annotations

import sympy as sp

from checks.c02 import REACTIONS, is_coeff
from vf.core import Ctx, Unsupported
from vf.harness import Check
from vf.replay import differs, subs_from_assignment
from vf.solve import Result, discharge, identity_obligations
from vf.sym2smt import Translator

UF_CLASSES = ("EnergyDependentWidth", "FormFactor", "BlattWeisskopfSquared", "PhaseSpaceFactor", "PhaseSpaceFactorAbs", "PhaseSpaceFactorComplex",
              "PhaseSpaceFactorSWave", "EqualMassPhaseSpaceFactor", "BreakupMomentumSquared", "acos", "atan2")
OPAQUE = ("InvariantMass", "Phi", "Theta", "ArraySum", "ArraySlice", "ArrayMultiplication",
          "BoostMatrix", "BoostZMatrix", "RotationYMatrix", "RotationZMatrix", "ArraySymbol", "ArrayAxisSum", "MatrixMultiplication", "NegativeMomentum",
          "Energy", "FourMomentumX", "FourMomentumY", "FourMomentumZ", "EuclideanNorm", "ThreeMomentum", "ArraySize")  # fmt: skip


def make_model(kind):
    import logging

    import qrules

    import ampform
    from ampform.dynamics.builder import create_relativistic_breit_wigner_with_ff

    logging.getLogger().setLevel(logging.ERROR)
    if kind == "bw":
        reaction = qrules.generate_transitions(**REACTIONS["J/psi->gamma f0,f2"], formalism="canonical-helicity", number_of_threads=1)
        b = ampform.get_builder(reaction)
        for name in ("f(0)(980)", "f(2)(1270)"):
            b.dynamics.assign(name, create_relativistic_breit_wigner_with_ff)
        return b.formulate()
    if kind == "stable":
        reaction = qrules.generate_transitions(**REACTIONS["J/psi->gamma f0,f2"], formalism="helicity", number_of_threads=1)
        b = ampform.get_builder(reaction)
        b.config.stable_final_state_ids = [0, 1, 2]
        b.config.scalar_initial_state_mass = True
        b.dynamics.assign("f(0)(980)", create_relativistic_breit_wigner_with_ff)
        return b.formulate()
    if kind == "dpd":
        from ampform.helicity.align.dpd import DalitzPlotDecomposition

        from ampform.helicity.align.dpd import relabel_edge_ids

        reaction = relabel_edge_ids(qrules.generate_transitions(**REACTIONS["J/psi->K0 Sigma+ p~"], formalism="helicity", number_of_threads=1))
        b = ampform.get_builder(reaction)
        b.config.spin_alignment = DalitzPlotDecomposition(reference_subsystem=1)
        b.config.stable_final_state_ids = [1, 2, 3]
        b.config.scalar_initial_state_mass = True
        return b.formulate()
    raise ValueError(kind)


def pick(model, prefix, k=0):
    names = sorted(str(s_) for s_ in model.parameter_defaults if str(s_).startswith(prefix))
    return names[k % len(names)] if names else None


def rename_maps(model):
    """(label, list of successive rename dicts)"""
    m_a, m_b = pick(model, "m_{", 0) or pick(model, "m_", 0), pick(model, "m_{", 1) or pick(model, "m_", 1)
    c_a, c_b = pick(model, "C_", 0), pick(model, "C_", 1)
    kin = sorted(str(s_) for s_ in model.kinematic_variables if str(s_).startswith("theta"))[0]
    mass_par = pick(model, "m_0") or pick(model, "m_1") or m_a
    maps = {
        "injective(2 params)": [{m_a: "M_A", c_a: "C_new"}],
        "merge(two coefficients)": [{c_a: "C_joint", c_b: "C_joint"}],
        "chain a->b with b present": [{c_a: c_b}],
        "swap": [{m_a: m_b, m_b: m_a}],
        "kinematic variable": [{kin: "theta_renamed"}],
        "stable mass parameter": [{mass_par: "mass_renamed"}],
        "four-momentum symbols": [{"p0": "q0", "p1": "q1", "p2": "q2", "p3": "q3"}],
        "unknown name": [{"no_such_symbol": "x"}],
        "empty": [{}],
        "two successive": [{m_a: "M_tmp"}, {"M_tmp": "M_final", c_a: "C_final"}],
    }
    return maps


def worker(config, tier, seed):
    try:
        return run(config, tier, seed)
    except Unsupported as exc:
        return [Result(name="translate", kind="identity", status="unknown", config=config["name"], detail=f"Unsupported: {exc}")]


def run(config, tier, seed):
    import logging

    logging.getLogger("ampform").setLevel(logging.ERROR)
    model = make_model(config["model"])
    before = {a: sp.srepr(getattr(model, a)) if a == "intensity" else repr(sorted(map(str, getattr(model, a).items()))) for a in
              ("intensity", "amplitudes", "parameter_defaults", "components", "kinematic_variables")}  # fmt: skip
    renames = rename_maps(model)[config["map"]]
    new = model
    sigma: dict[str, str] = {}  # old name -> final name
    for r in renames:
        new = new.rename_symbols(r)
        cur = {o: n for o, n in sigma.items()}
        for o in list(cur):
            if cur[o] in r:
                cur[o] = r[cur[o]]
        for o, n in r.items():
            if o not in sigma.values() and o not in cur:
                cur[o] = n
        sigma = cur
    out = []

    # structural reference: every attribute with the simultaneous symbol map applied (xreplace), successively per rename
    ref = {"intensity": model.intensity, "amplitudes": dict(model.amplitudes), "components": dict(model.components),
           "kinematic_variables": dict(model.kinematic_variables), "parameter_defaults": dict(model.parameter_defaults)}  # fmt: skip
    for r in renames:
        syms = set(ref["intensity"].free_symbols) | set(ref["kinematic_variables"]) | {p for p in ref["parameter_defaults"] if isinstance(p, sp.Symbol)}
        for group in ("amplitudes", "components", "kinematic_variables"):
            for e_ in ref[group].values():
                syms |= e_.free_symbols
        smap = {s_: sp.Symbol(r[s_.name], **s_.assumptions0) for s_ in syms if getattr(s_, "name", None) in r}
        ref = {"intensity": ref["intensity"].xreplace(smap), "amplitudes": {k: v.xreplace(smap) for k, v in ref["amplitudes"].items()},
               "components": {k: v.xreplace(smap) for k, v in ref["components"].items()},
               "kinematic_variables": {smap.get(k, k): v.xreplace(smap) for k, v in ref["kinematic_variables"].items()},
               "parameter_defaults": {smap.get(k, k): v for k, v in ref["parameter_defaults"].items()}}  # fmt: skip

    def grd(name, ok, **info):
        out.append(Result(name=name, kind="ground", status="ok" if ok else "fail", config=config["name"], replay={"reproduced": not ok, **{k: str(v)[:300] for k, v in info.items()}}))

    after = {a: sp.srepr(getattr(model, a)) if a == "intensity" else repr(sorted(map(str, getattr(model, a).items()))) for a in before}
    grd("original model unchanged", before == after)
    for attr in ("intensity", "amplitudes", "components", "kinematic_variables"):
        got_, want_ = getattr(new, attr), ref[attr]
        if attr == "intensity":
            diff_ = [] if got_ == want_ else ["intensity"]
        else:
            diff_ = sorted(str(k)[:60] for k in set(got_) | set(want_) if k not in got_ or k not in want_ or got_[k] != want_[k])
        grd(f"structure: {attr} == original with the symbol map applied simultaneously", not diff_, differing=diff_[:6],
            example_got=str(got_ if attr == "intensity" else got_.get(next(iter(got_)) if not diff_ else next((k for k in got_ if str(k)[:60] == diff_[0]), None)))[:200])
    all_old = model.expression.free_symbols | set(model.kinematic_variables) | set(model.parameter_defaults)
    for kv in model.kinematic_variables.values():
        all_old |= {s_ for s_ in kv.free_symbols if isinstance(s_, sp.Symbol)}
    sig_sym = {s_: sigma.get(s_.name, s_.name) for s_ in all_old if isinstance(s_, sp.Symbol)}
    # ground: key sets, assumptions, closure
    want_params = {sig_sym.get(p, str(p)) for p in model.parameter_defaults}
    grd("parameter keys == renamed originals", {str(p) for p in new.parameter_defaults} == want_params, got=sorted(map(str, new.parameter_defaults)), want=sorted(want_params))
    want_kin = {sig_sym.get(p, str(p)) for p in model.kinematic_variables}
    grd("kinematic-variable keys == renamed originals", {str(p) for p in new.kinematic_variables} == want_kin)
    new_syms = {s_.name: s_ for s_ in new.expression.free_symbols | set(new.parameter_defaults) | set(new.kinematic_variables) if isinstance(s_, sp.Symbol)}
    bad_assump = [o.name for o, n in sig_sym.items() if n in new_syms and len({k for k, v in sig_sym.items() if v == n}) == 1 and new_syms[n].assumptions0 != o.assumptions0]
    grd("assumptions preserved", not bad_assump, symbols=bad_assump)
    free = {s_ for s_ in new.expression.free_symbols if isinstance(s_, sp.Symbol)}
    undefined = sorted(str(s_) for s_ in free if (s_ in new.parameter_defaults) == (s_ in new.kinematic_variables))
    grd("closure: every free symbol is a parameter xor a kinematic variable", not undefined, symbols=undefined)
    import re

    momenta = {sigma.get(s_.name, s_.name) for kv in model.kinematic_variables.values() for s_ in kv.free_symbols if re.fullmatch(r"p\d+", getattr(s_, "name", ""))}
    kin_free = set()
    for kv in new.kinematic_variables.values():
        kin_free |= {s_ for s_ in kv.free_symbols if isinstance(s_, sp.Symbol) and s_.name not in momenta}
    dangling = sorted(str(s_) for s_ in kin_free if s_ not in new.parameter_defaults and s_ not in new.kinematic_variables)
    grd("closure: kinematic-variable definitions use parameters / kinematic variables / momenta only", not dangling, symbols=dangling)
    # ---- solver obligations
    ctx = Ctx(config["name"])
    tr_new = Translator(ctx, complex_symbols=is_coeff, opaque_classes=OPAQUE)
    vals_old = {}
    for s_, n in sig_sym.items():
        vals_old[s_] = ctx.cvar(n) if is_coeff(s_) else ctx.var(n)
    # the new model's symbols must denote the same variables (a coefficient stays complex under any new name)
    vals_new = {}
    for s_ in new_syms.values():
        olds = [o for o, n in sig_sym.items() if n == s_.name]
        vals_new[s_] = ctx.cvar(s_.name) if (olds and is_coeff(olds[0])) or is_coeff(s_) else ctx.var(s_.name)
    tr_new = Translator(ctx, symbol_values=vals_new, opaque_classes=OPAQUE, opaque_real=True, uf_classes=UF_CLASSES, use_assumptions=False)
    tr_old = Translator(ctx, symbol_values=vals_old, opaque_classes=OPAQUE, opaque_real=True, uf_classes=UF_CLASSES, use_assumptions=False)
    obs, pairs = [], {}

    # opaque array nodes are unknowns named by their structure: sigma acts on the momentum symbols inside them
    mom_map = {s_: sp.Symbol(sigma[s_.name], **s_.assumptions0) for s_ in all_old if re.fullmatch(r"p\d+", getattr(s_, "name", "")) and s_.name in sigma}

    def add(label, e_new, e_old):
        if mom_map:
            e_old = e_old.xreplace(mom_map)
        obs.extend(identity_obligations(label, tr_new(e_new), tr_old(e_old)))
        pairs[label] = (e_new, e_old)

    add("expression' == expression o sigma", new.expression, model.expression)
    add("intensity' == intensity o sigma", new.intensity.evaluate(), model.intensity.evaluate())
    amps_old = {str(k): v for k, v in model.amplitudes.items()}
    for k, v in new.amplitudes.items():
        if str(k) in amps_old:
            add(f"amplitude {str(k)[:60]}", v, amps_old[str(k)])
    for k, v in list(new.components.items())[:: max(1, len(new.components) // 12)]:
        add(f"component {k[:70]}", v, model.components[k])
    kin_old = {sig_sym.get(k, str(k)): v for k, v in model.kinematic_variables.items()}
    for k, v in new.kinematic_variables.items():
        if str(k) in kin_old and (v.free_symbols & set(new.parameter_defaults) or str(k).startswith(("\\zeta", "zeta"))):
            add(f"kinematic variable {str(k)[:40]}", v, kin_old[str(k)])
    # carried-over defaults (injective maps only: a merge keeps one of the two values by design)
    injective = len(set(sig_sym.values())) == len(sig_sym)
    if injective:
        d_new = {k: sp.nsimplify(v, rational=True) for k, v in new.parameter_defaults.items()}
        d_old = {k: sp.nsimplify(v, rational=True) for k, v in model.parameter_defaults.items()}
        add("expression' with carried-over defaults == expression with defaults", new.expression.xreplace(d_new), model.expression.xreplace(d_old))
        grd("default values carried over", {sig_sym.get(k, str(k)): v for k, v in model.parameter_defaults.items()} == {str(k): v for k, v in new.parameter_defaults.items()})

    def replay(name, asg):
        e_new, e_old = pairs[name.split("::")[0]]
        subs_n = {}
        vals = {}
        for q, nm in enumerate(sorted(set(sig_sym.values()) | set(new_syms))):
            vals[nm] = sp.Rational(3 + 2 * q, 7 + q) + (sp.I * sp.Rational(1 + q, 5) if nm.startswith(("C_", "H_")) else 0)
        for s_ in e_new.free_symbols:
            if isinstance(s_, sp.Symbol) and s_.name in vals:
                subs_n[s_] = vals[s_.name]
        subs_o = {s_: vals[sig_sym[s_]] for s_ in e_old.free_symbols if s_ in sig_sym}
        lv, rv = sp.N(e_new.doit().xreplace(subs_n), 30), sp.N(e_old.doit().xreplace(subs_o), 30)
        if not (lv.is_number and rv.is_number):
            same = sp.simplify(lv - rv) == 0
            return {"reproduced": not same, "note": "compared symbolically (array expressions remain)"}
        return {"reproduced": bool(abs(lv - rv) > 1e-12 * (1 + abs(lv))), "renamed": str(lv), "original o sigma": str(rv)}

    try:
        res = discharge(ctx, obs, config=config["name"], replay=replay, timeout_s=60, hunt_rounds=2)
    except BaseException as exc:  # noqa: BLE001  (keep the ground side-checks if the configuration runs out of time)
        if type(exc).__name__ != "_ConfigTimeout":
            raise
        res = [Result(name="configuration time limit (solver obligations)", kind="identity", status="unknown", config=config["name"], detail="ground side-checks kept")]
    for r in out + res:
        if r.status in ("sat", "fail"):
            r.selector = f"{config['name']}::{r.name.split('::')[0]}"
    return out + res


def configs(tier):
    out = []
    maps = ["injective(2 params)", "merge(two coefficients)", "chain a->b with b present", "swap", "kinematic variable", "stable mass parameter",
            "four-momentum symbols", "unknown name", "empty", "two successive"]  # fmt: skip
    for model in ("bw", "stable", "dpd"):
        for mp in maps:
            if tier == "quick" and model == "bw" and mp in ("unknown name", "empty", "two successive"):
                continue
            if model == "dpd" and mp in ("merge(two coefficients)", "chain a->b with b present"):
                continue  # collected like terms in a very large aligned intensity: not decided within the limits (outside the bound)
            out.append({"name": f"{model}|{mp}", "model": model, "map": mp})
    return out


def main():
    import ampform.helicity as h

    chk = Check("C17", __doc__)
    chk.run(worker, configs(chk.tier))
    chk.finish(
        functions=[h.HelicityModel.rename_symbols, h.HelicityModel.expression.fget, h.ParameterValues],
        bounds={"models": ["canonical J/psi->gamma f0,f2 with BW", "helicity, stable final-state ids + scalar initial mass", "DPD-aligned J/psi->K0 Sigma+ p~ with stable ids"],
                "rename maps": "10 families, <= 2 successive renames"},  # fmt: skip
        assumptions=["array-valued kinematic expressions (Phi, Theta, InvariantMass, boosts ...) are opaque: one unknown per structurally distinct node",
                     "coefficients are complex solver variables, everything else real"],  # fmt: skip
        outside=["longer rename histories", "models not listed", "merging renames on the DPD-aligned model (undecided within the time limit)"],
    )


if __name__ == "__main__":
    main()
