"""C14  Unevaluated expressions obey substitution, equality and folding laws.

Encoded from /repo: every class in the ampform package created by the `unevaluated` decorator
(found by introspection) plus PoolSum/ArraySum/ComplexSqrt helpers: _implement_new_method,
_eval_subs_method, _xreplace_method, _hashable_content_method, _implement_doit, and the
_numpycode printers.   DESIGN.md section 4, C14.

(i)  expr.xreplace(m).doit() == expr.doit().xreplace(m)  (same for subs), decided by z3 as an
     identity in all remaining variables (E1), for argument shapes incl. nested unevaluated arguments;
(iv) NumPy code generated from the folded form == code generated from the unfolded form (E2);
(ii),(iii) equality/hash and func(*args) laws: ground side-checks over the generated instances.
"""

from __future__ import annotations

import dataclasses
import importlib
import inspect
import itertools
import pkgutil

import numpy as np
import sympy as sp

from vf.core import Ctx, Unsupported
from vf.harness import Check
from vf.replay import differs, subs_from_assignment
from vf.solve import Result, discharge, identity_obligations
from vf.sym2smt import Translator

x, y, z, w, a, b = sp.symbols("x y z w a b", real=True)
SYMS = [x, y, z, w, a, b, *sp.symbols("c d e f g h", real=True)]
SCALAR_UF = ("log", "atan")


def decorated_classes():
    import ampform

    out = {}
    for mod in pkgutil.walk_packages(ampform.__path__, "ampform."):
        try:
            m = importlib.import_module(mod.name)
        except Exception:  # noqa: BLE001, S112
            continue
        for name, cls in inspect.getmembers(m, inspect.isclass):
            if cls.__module__ == m.__name__ and issubclass(cls, sp.Expr) and dataclasses.is_dataclass(cls):
                out[f"{cls.__module__}.{name}"] = cls
    return out


def sympy_fields(cls):
    return [f for f in dataclasses.fields(cls) if f.metadata.get("sympify", True)]


def make(cls, args):
    n = len(sympy_fields(cls))
    return cls(*args[:n])


ARRAY_MODULES = ("ampform.kinematics.lorentz", "ampform.kinematics.angles", "ampform.sympy._array_expressions")


def is_scalar_class(qual):
    return not qual.startswith(ARRAY_MODULES)


def instances(qual, cls):
    """argument shapes: plain symbols; a sum/power in the first slot; a nested unevaluated instance"""
    from ampform.dynamics.phasespace import BreakupMomentumSquared
    from ampform.kinematics.phasespace import Kallen

    n = len(sympy_fields(cls))
    base = list(SYMS[:n])
    if qual.endswith("BlattWeisskopfSquared") or qual.endswith("SphericalHankel1"):
        # the angular momentum slot is an integer
        idx = 1 if qual.endswith("BlattWeisskopfSquared") else 0
        base[idx] = sp.Integer(2)
    L_slots = [k for k, f in enumerate(sympy_fields(cls)) if f.name in ("angular_momentum", "l")]
    for k in L_slots:
        base[k] = sp.Integer(1)
    shapes = {"symbols": list(base)}
    free_slots = [k for k in range(n) if isinstance(base[k], sp.Symbol)]
    if free_slots:
        k0 = free_slots[0]
        s1 = list(base)
        s1[k0] = base[k0] + SYMS[7] ** 2
        shapes["sum-in-arg"] = s1
        s2 = list(base)
        s2[k0] = BreakupMomentumSquared(SYMS[8], SYMS[9], SYMS[10])
        shapes["nested-unevaluated(non-sympy field)"] = s2
        s3 = list(base)
        s3[k0] = Kallen(SYMS[8], SYMS[9], SYMS[10])
        shapes["nested-unevaluated"] = s3
    out = {}
    for label, args in shapes.items():
        try:
            out[label] = make(cls, args)
        except Exception:  # noqa: BLE001, S112
            continue
    return out


def maps_for(expr):
    fs = sorted(expr.free_symbols, key=str)
    if not fs:
        return {}
    s0 = fs[0]
    fresh = sp.Symbol("q", real=True)
    out = {
        "symbol->symbol": {s0: fresh},
        "symbol->number": {s0: sp.Rational(3, 2)},
        "symbol->expression": {s0: s0 + fresh * 2},
    }
    if len(fs) > 1:
        out["swap"] = {fs[0]: fs[1], fs[1]: fs[0]}
        out["last symbol->number"] = {fs[-1]: sp.Rational(5, 4)}
        out["last symbol->symbol"] = {fs[-1]: fresh}
    return out


def worker(config, tier, seed):
    try:
        if config["kind"] == "scalar":
            return run_scalar(config, tier, seed)
        if config["kind"] == "code":
            return run_code(config, tier, seed)
        return run_ground(config, tier, seed)
    except Unsupported as exc:
        return [Result(name="translate", kind="identity", status="unknown", config=config["name"], detail=f"Unsupported: {exc}")]


def run_scalar(config, tier, seed):
    cls = decorated_classes()[config["class"]]
    out = []

    def one(label, lhs, rhs):
        """one small context per identity (the uninterpreted-function consistency constraints stay few)"""
        ctx = Ctx(config["name"])
        ctx.implied_timeout_ms = 300  # no domain here: sign questions are undecidable, do not wait for them
        # substitution laws are about the wiring of arguments: sqrt-with-branch, log and atan are uninterpreted
        # functions of their (translated) arguments here -- equal arguments give equal values
        tr = Translator(ctx, use_assumptions=False, uf_classes=("ComplexSqrt", "log", "atan", "Abs"))
        obs = identity_obligations(label, tr(lhs), tr(rhs))

        def replay(name, asg):
            subs = subs_from_assignment(tr, asg)
            for q, s_ in enumerate(sorted((lhs.free_symbols | rhs.free_symbols) - set(subs), key=str)):
                subs[s_] = sp.Rational(7 + q, 3)
            return differs(lhs, rhs, subs, rel=1e-10)

        return discharge(ctx, obs, config=config["name"], replay=replay, timeout_s=20, hunt_rounds=4, sample_smt2=0)

    for shape, expr in instances(config["class"], cls).items():
        for mlabel, m in maps_for(expr).items():
            for method in ("xreplace", "subs"):
                label = f"{shape}|{method}[{mlabel}]"
                try:
                    lhs = (expr.xreplace(m) if method == "xreplace" else expr.subs(m, simultaneous=True)).doit()
                    rhs = expr.doit().xreplace(m) if method == "xreplace" else expr.doit().subs(m, simultaneous=True)
                except Exception as exc:  # noqa: BLE001
                    out.append(Result(name=label, kind="ground", status="fail", config=config["name"],
                                      replay={"reproduced": True, "raises": f"{type(exc).__name__}: {str(exc)[:200]}"}))  # fmt: skip
                    continue
                leftover = [type(n).__name__ for n in sp.preorder_traversal(lhs) if dataclasses.is_dataclass(n)]
                tuples = [n for n in sp.preorder_traversal(lhs) if type(n) is sp.Tuple]
                if (leftover or tuples) and lhs == rhs:
                    out.append(Result(name=label + " [structurally identical]", kind="ground", status="ok", config=config["name"]))
                    continue
                if leftover or tuples:
                    out.append(Result(name=label, kind="ground", status="fail", config=config["name"],
                                      replay={"reproduced": True, "note": "substitute-then-unfold left folded nodes / Tuples behind",
                                              "expr": str(lhs)[:200], "reference": str(rhs)[:200]}))  # fmt: skip
                    continue
                try:
                    out += one(label, lhs, rhs)
                except Unsupported as exc:
                    # not encodable: ground side-check at three rational points (not part of the solver claim)
                    same = lhs == rhs
                    if not same:
                        same = True
                        for q in range(3):
                            pt = {s_: sp.Rational(11 + 3 * q + 2 * k_, 7 + q) for k_, s_ in enumerate(sorted(lhs.free_symbols | rhs.free_symbols, key=str))}
                            r_ = differs(lhs, rhs, pt, rel=1e-10)
                            if r_["reproduced"]:
                                same = False
                    out.append(Result(name=label + " [ground, not encodable]", kind="ground", status="ok" if same else "fail", config=config["name"],
                                      replay={"reproduced": not same}, detail=f"not encodable ({exc}); evaluated at three rational points"))  # fmt: skip
    for r in out:
        if r.status in ("sat", "fail"):
            r.selector = f"{config['name']}::{r.name.split('::')[0]}"
    return out


# --------------------------------------------------------------------------- (iv) folded vs unfolded code
def code_cases():
    from ampform.kinematics import lorentz as lz
    from ampform.sympy.math import ComplexSqrt

    p, p2 = lz.FourMomentumSymbol("p", shape=[]), lz.FourMomentumSymbol("k", shape=[])
    beta, ang = sp.Symbol("beta", real=True), sp.Symbol("alpha", real=True)
    xs = sp.Symbol("xs", real=True)
    return {
        "EuclideanNorm(ThreeMomentum(p))": ([p], lz.EuclideanNorm(lz.ThreeMomentum(p))),
        "EuclideanNormSquared(ThreeMomentum(p))": ([p], lz.EuclideanNormSquared(lz.ThreeMomentum(p))),
        "EuclideanNormSquared(ThreeMomentum(p)-ThreeMomentum(k))": ([p, p2], lz.EuclideanNormSquared(lz.ThreeMomentum(p) - lz.ThreeMomentum(p2))),
        "EuclideanNorm(3*ThreeMomentum(p))": ([p], lz.EuclideanNorm(3 * lz.ThreeMomentum(p))),
        "ThreeMomentum(p)": ([p], lz.ThreeMomentum(p)),
        "MinkowskiMetric*p": ([p], lz.ArrayMultiplication(lz.MinkowskiMetric(p), p)),
        "ArraySum(p,k)": ([p, p2], lz.ArraySum(p, p2)),
        "ComplexSqrt(xs)": ([xs], ComplexSqrt(xs)),
        "ComplexSqrt(xs**2-1)": ([xs], ComplexSqrt(xs**2 - 1)),
    }


def run_code(config, tier, seed):
    from vf.symnp import angle_array, generated_source, momentum_array, scalar_array, sym_exec

    args, expr = code_cases()[config["case"]]
    out = []
    obs = []
    ctx = Ctx(config["name"])
    ins = []
    for s_ in args:
        nm = str(s_)
        if nm in ("p", "k"):
            P = momentum_array(ctx, nm, 1)
            E = P[0, 0].real_term_nodiv()
            ctx.assume(E > 0)
            ins.append(P)
        elif nm == "alpha":
            ins.append(angle_array(ctx, nm, 1))
        else:
            arr = scalar_array(ctx, nm, 1)
            if nm == "beta":
                zb = arr[0].real_term_nodiv()
                ctx.assume(zb * zb < 1)
            ins.append(arr)
    results = {}
    for cse in (False, True):
        for form, e in (("folded", expr), ("unfolded", expr.doit())):
            try:
                fn, src = generated_source(args, e, cse=cse)
                results[cse, form] = (np.asarray(sym_exec(ctx, src, ins, radicands="assume"), dtype=object), fn)
            except Exception as exc:  # noqa: BLE001
                results[cse, form] = (exc, None)
        f, u = results[cse, "folded"][0], results[cse, "unfolded"][0]
        if isinstance(f, Exception) or isinstance(u, Exception):
            bad = isinstance(f, Exception) != isinstance(u, Exception)
            out.append(Result(name=f"cse={cse}: both forms generate executable code", kind="ground", status="fail" if bad else "ok", config=config["name"],
                              replay={"reproduced": bad, "folded": str(f)[:150], "unfolded": str(u)[:150]}))  # fmt: skip
            continue
        if f.shape != u.shape:
            out.append(Result(name=f"cse={cse}: shapes agree", kind="ground", status="fail", config=config["name"], replay={"reproduced": True, "shapes": [f.shape, u.shape]}))
            continue
        for idx in np.ndindex(f.shape):
            obs += identity_obligations(f"cse={cse}: folded code == unfolded code {list(idx)}", f[idx], u[idx])

    def replay(name, asg):
        import warnings

        cse = "cse=True" in name
        vals = []
        for s_ in args:
            nm = str(s_)
            if nm in ("p", "k"):
                vals.append(np.array([[float(asg.get(f"{nm}[0].{c}", 1.0)) for c in "Exyz"]]))
            elif nm == "alpha":
                vals.append(np.array([4 * np.arctan(float(asg.get(f"t[{nm}[0]]", 0)))]))
            else:
                vals.append(np.array([float(asg.get(f"{nm}[0]", 0.5))]))
        with warnings.catch_warnings():
            warnings.simplefilter("ignore")
            fv = np.asarray(results[cse, "folded"][1](*vals))
            uv = np.asarray(results[cse, "unfolded"][1](*vals))
        d = float(np.nanmax(np.abs(fv - uv)))
        return {"reproduced": bool(d > 1e-9 * (1 + float(np.nanmax(np.abs(uv))))), "max_abs_diff": d}

    res = discharge(ctx, obs, config=config["name"], replay=replay, timeout_s=30, hunt_rounds=0) if obs else []
    for r in out + res:
        if r.status in ("sat", "fail"):
            r.selector = f"{config['name']}::{r.name.split('::')[0].split(' [')[0]}"
    return out + res


# --------------------------------------------------------------------------- (ii), (iii)
def run_ground(config, tier, seed):
    out = []
    classes = decorated_classes()
    pool = []
    for qual, cls in classes.items():
        for shape, inst in instances(qual, cls).items():
            pool.append((qual, shape, inst))
    # non-SymPy attribute variants
    import ampform.dynamics as dyn

    s_, m0, g0, m1, m2 = sp.symbols("s m0 Gamma0 m1 m2", nonnegative=True)
    for phsp in (dyn.PhaseSpaceFactor, dyn.PhaseSpaceFactorAbs, dyn.PhaseSpaceFactorSWave):
        for nm in (None, "G"):
            pool.append(("EnergyDependentWidth*", f"{phsp.__name__},{nm}", dyn.EnergyDependentWidth(s_, m0, g0, m1, m2, 1, 1, phsp, nm)))
    lam1, lam2 = (lambda s, a_, b_: s + a_), (lambda s, a_, b_: s * b_)
    pool.append(("EnergyDependentWidth*", "lambda1", dyn.EnergyDependentWidth(s_, m0, g0, m1, m2, 1, 1, lam1)))
    pool.append(("EnergyDependentWidth*", "lambda2", dyn.EnergyDependentWidth(s_, m0, g0, m1, m2, 1, 1, lam2)))
    bad_eq, bad_rebuild = [], []

    def identity(inst):
        extra = tuple(getattr(inst, f.name) for f in dataclasses.fields(inst) if not f.metadata.get("sympify", True))
        return (type(inst), inst.args, extra)

    for (q1, s1, i1), (q2, s2, i2) in itertools.combinations(pool, 2):
        want = identity(i1) == identity(i2)
        got = i1 == i2
        if want != got or (got and hash(i1) != hash(i2)):
            bad_eq.append(f"{q1}[{s1}] vs {q2}[{s2}]: == is {got}, expected {want}")
    for qual, shape, inst in pool:
        if all(f.metadata.get("sympify", True) for f in dataclasses.fields(inst)):
            try:
                if inst.func(*inst.args) != inst:
                    bad_rebuild.append(f"{qual}[{shape}]")
            except Exception as exc:  # noqa: BLE001
                bad_rebuild.append(f"{qual}[{shape}]: {type(exc).__name__}")
    out.append(Result(name="(ii) == and hash iff class, arguments and non-SymPy attributes agree", kind="ground", status="ok" if not bad_eq else "fail",
                      config=config["name"], replay={"reproduced": bool(bad_eq), "pairs": bad_eq[:5], "instances": len(pool)}))  # fmt: skip
    out.append(Result(name="(iii) expr.func(*expr.args) == expr for all-SymPy-field classes", kind="ground", status="ok" if not bad_rebuild else "fail",
                      config=config["name"], replay={"reproduced": bool(bad_rebuild), "instances": bad_rebuild[:5]}))  # fmt: skip
    # the check must have solver obligations to count; this configuration only carries ground side-checks
    return out


def configs(tier):
    out = []
    for qual in sorted(decorated_classes()):
        if is_scalar_class(qual):
            out.append({"name": f"subs-laws:{qual}", "kind": "scalar", "class": qual})
    for case in code_cases():
        out.append({"name": f"code:{case}", "kind": "code", "case": case})
    out.append({"name": "equality-and-rebuild", "kind": "ground"})
    return out


def main():
    from ampform.sympy import _decorator as d

    chk = Check("C14", __doc__)
    from vf.symnp import validate_shim

    chk.errors += [f"E2 shim disagrees with NumPy: {e}" for e in validate_shim(chk.seed)]
    chk.run(worker, configs(chk.tier))
    chk.finish(
        functions=[d._implement_new_method, d._eval_subs_method, d._xreplace_method, d._hashable_content_method, d._implement_doit, d._get_hashable_object],
        bounds={"classes": f"{len(decorated_classes())} found by introspection ((i) for the scalar-valued ones, (iv) for the classes that print themselves (NumPyPrintable): norms, slices, sums, metric, ComplexSqrt; the matrix classes are not printable folded by design)",
                "argument shapes": "symbols, sum in an argument, nested unevaluated argument (with and without non-SymPy field)", "maps": "6 kinds x {xreplace, subs}"},  # fmt: skip
        assumptions=["log/atan uninterpreted; S-wave/equal-mass phase-space nodes opaque", "(iv): radicands assumed >= 0 in the generated code (E2 'assume' mode)"],
        outside=["argument shapes beyond depth 2", "printers other than NumPy", "array-valued classes in law (i) (compared structurally only where not encodable)"],
    )


if __name__ == "__main__":
    main()
