"""Classes the C15 check pickles itself (must live in an importable module, not in __main__)."""

from ampform.sympy import UnevaluatedExpression, implement_doit_method


@implement_doit_method
class SquaredSum(UnevaluatedExpression):
    def __new__(cls, a, b, **hints):
        return super().__new__(cls, a, b, **hints)

    def evaluate(self):
        a, b = self.args
        return a**2 + b**2

    def _latex(self, printer, *args):
        return "sq"
