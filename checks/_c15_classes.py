"""Classes the C15 check pickles itself (must live in an importable module, not in __main__)."""

from ampform.sympy import UnevaluatedExpression, implement_doit_method


@implement_doit_method
class SquaredSum(UnevaluatedExpression):
    def __new__(cls, a, b, **hints):
        return super().__new__(cls, a, b, **hints)

    def evaluate(self):
        a, b = self.args
        return a**2 + b**2

    def _latex(self, printer, *args):
        return "sq"


import sympy as sp  # noqa: E402
from typing import Any  # noqa: E402

from ampform.sympy import argument, unevaluated  # noqa: E402


@unevaluated
class Mixed(sp.Expr):
    """user-defined class whose non-SymPy attribute is declared BETWEEN SymPy arguments"""

    a: Any
    tag: Any = argument(sympify=False)
    b: Any

    def evaluate(self):
        return self.a + 2 * self.b if self.tag == "plus" else self.a - 2 * self.b
