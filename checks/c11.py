"""C11  All phase-space-factor variants agree where they must.

Encoded from /repo (E1 + uninterpreted log/atan): BreakupMomentumSquared, PhaseSpaceFactor,
...Abs, ...Complex, ...SWave, EqualMassPhaseSpaceFactor, chew_mandelstam_s_wave,
_analytic_continuation, ComplexSqrt.   DESIGN.md section 4, C11.

Regions are case-split on the order of s, 0, (m1-m2)^2, (m1+m2)^2.
"""

from __future__ import annotations

import sympy as sp
import z3

from vf.core import Ctx, Unsupported
from vf.harness import Check
from vf.replay import differs, numpy_undefined, subs_from_assignment
from vf.solve import Obligation, Result, discharge, identity_obligations, side_obligations
from vf.sym2smt import Translator

VARIANTS = ("PhaseSpaceFactor", "PhaseSpaceFactorAbs", "PhaseSpaceFactorComplex", "PhaseSpaceFactorSWave", "EqualMassPhaseSpaceFactor")


def _phs():
    from ampform.dynamics import phasespace

    return phasespace


def _setup(name, region, equal_mass=False):
    ctx = Ctx(name)
    s = sp.Symbol("s", real=True)
    m1, m2 = sp.symbols("m1 m2", positive=True)
    tr = Translator(ctx, branch_by_solver=True, uf_functions=("log", "atan"), name_classes=("BreakupMomentumSquared",))
    zs = tr(s).real_term_nodiv()
    z1 = tr(m1).real_term_nodiv()
    z2 = tr(m2).real_term_nodiv() if not equal_mass else z1
    thr, pthr = (z1 + z2) * (z1 + z2), (z1 - z2) * (z1 - z2)
    if region == "above":
        ctx.assume(zs > thr)
        ctx.mark_positive(zs)
    elif region == "between":
        ctx.assume(z3.And(zs > pthr, zs < thr, zs > 0))
        ctx.mark_positive(zs)
    elif region == "any":
        ctx.assume(zs != 0)
    return ctx, tr, s, m1, (m1 if equal_mass else m2)


def cfg_q2(config, tier, seed):
    ps = _phs()
    ctx = Ctx(config["name"])
    s = sp.Symbol("s", real=True)
    m1, m2 = sp.symbols("m1 m2", positive=True)
    tr = Translator(ctx)
    q = ps.BreakupMomentumSquared
    pairs = {
        "q2 symmetric in masses": (q(s, m1, m2), q(s, m2, m1)),
        "q2((m1+m2)^2)==0": (q((m1 + m2) ** 2, m1, m2), sp.Integer(0)),
        "q2((m1-m2)^2)==0": (q((m1 - m2) ** 2, m1, m2), sp.Integer(0)),
    }
    obs = []
    for name, (l, r) in pairs.items():
        obs += identity_obligations(name, tr(l), tr(r))

    def replay(name, asg):
        subs = subs_from_assignment(tr, asg)
        l, r = pairs[name.split("::")[0]]
        for sym in (s, m1, m2):
            subs.setdefault(sym, sp.Rational(5, 3))
        return differs(l.doit(), r, subs) if r == 0 else differs(l.doit(), r.doit(), subs)

    return discharge(ctx, obs, config=config["name"], replay=replay, timeout_s=60)


def cfg_above(config, tier, seed):
    """s > (m1+m2)^2:  Re rho_X = 2 q / sqrt(s) for every variant."""
    ps = _phs()
    var = config["variant"]
    ctx, tr, s, m1, m2 = _setup(config["name"], "above")
    rho = getattr(ps, var)(s, m1, m2)
    q2 = ps.BreakupMomentumSquared(s, m1, m2)
    ref = 2 * sp.sqrt(q2) / sp.sqrt(s)
    V = tr(rho)
    obs = identity_obligations(f"Re {var} == 2q/sqrt(s)", V.real_part(), tr(ref))
    if var in VARIANTS[:3]:
        obs += identity_obligations(f"Im {var} == 0", V.imag_part(), ctx.const(0))

    def replay(name, asg):
        subs = subs_from_assignment(tr, asg)
        val = sp.N(rho.doit().xreplace(subs), 30)
        want = sp.N(ref.doit().xreplace(subs), 30)
        if name.startswith("Im"):
            return {"reproduced": bool(abs(sp.im(val)) > 1e-12), "value": str(val)}
        return {"reproduced": bool(abs(sp.re(val) - want) > 1e-12 * (1 + abs(want))), "value": str(val), "2q/sqrt(s)": str(want)}

    return discharge(
        ctx, obs + side_obligations(ctx), config=config["name"], replay=replay, timeout_s=90,
        side_replay=lambda name, asg: numpy_undefined(rho.doit(), subs_from_assignment(tr, asg)),
    )  # fmt: skip


def cfg_between(config, tier, seed):
    """(m1-m2)^2 < s < (m1+m2)^2:  rho_Complex = i * rho_Abs."""
    ps = _phs()
    ctx, tr, s, m1, m2 = _setup(config["name"], "between")
    lhs, rhs = ps.PhaseSpaceFactorComplex(s, m1, m2), sp.I * ps.PhaseSpaceFactorAbs(s, m1, m2)
    obs = identity_obligations("rho_Complex == i rho_Abs", tr(lhs), tr(rhs))

    def replay(name, asg):
        return differs(lhs.doit(), rhs.doit(), subs_from_assignment(tr, asg))

    return discharge(
        ctx, obs + side_obligations(ctx), config=config["name"], replay=replay, timeout_s=90,
        side_replay=lambda name, asg: numpy_undefined((lhs - rhs).doit(), subs_from_assignment(tr, asg)),
    )  # fmt: skip


def cfg_equal_mass(config, tier, seed):
    """m1 = m2 = m:  EqualMassPhaseSpaceFactor == PhaseSpaceFactorSWave on 0 < s < 4m^2 and s > 4m^2."""
    ps = _phs()
    region = config["region"]
    ctx, tr, s, m1, _ = _setup(config["name"], region, equal_mass=True)
    lhs, rhs = ps.EqualMassPhaseSpaceFactor(s, m1, m1), ps.PhaseSpaceFactorSWave(s, m1, m1)
    obs = identity_obligations(f"EqualMass == SWave ({region})", tr(lhs), tr(rhs))

    def replay(name, asg):
        return differs(lhs.doit(), rhs.doit(), subs_from_assignment(tr, asg), rel=1e-10)

    return discharge(
        ctx, obs + side_obligations(ctx), config=config["name"], replay=replay, timeout_s=120,
        side_replay=lambda name, asg: numpy_undefined((lhs - rhs).doit(), subs_from_assignment(tr, asg)),
    )  # fmt: skip


def worker(config, tier, seed):
    try:
        return {"q2": cfg_q2, "above": cfg_above, "between": cfg_between, "equal": cfg_equal_mass}[config["kind"]](config, tier, seed)
    except Unsupported as exc:
        return [Result(name="translate", kind="identity", status="unknown", config=config["name"], detail=f"Unsupported: {exc}")]


def configs(tier):
    out = [{"name": "q2", "kind": "q2"}]
    for v in VARIANTS:
        out.append({"name": f"above:{v}", "kind": "above", "variant": v})
    out.append({"name": "between:Complex==i*Abs", "kind": "between"})
    out.append({"name": "equal-mass:above", "kind": "equal", "region": "above"})
    out.append({"name": "equal-mass:between", "kind": "equal", "region": "between"})
    return out


def main():
    ps = _phs()
    from ampform.sympy.math import ComplexSqrt

    chk = Check("C11", __doc__)
    chk.run(worker, configs(chk.tier))
    chk.finish(
        functions=[
            ps.BreakupMomentumSquared.evaluate, ps.PhaseSpaceFactor.evaluate, ps.PhaseSpaceFactorAbs.evaluate,
            ps.PhaseSpaceFactorComplex.evaluate, ps.PhaseSpaceFactorSWave.evaluate, ps.EqualMassPhaseSpaceFactor.evaluate,
            ps.chew_mandelstam_s_wave, ps._analytic_continuation, ComplexSqrt.get_definition,
        ],  # fmt: skip
        bounds={"variants": list(VARIANTS), "regions": ["s>(m1+m2)^2", "(m1-m2)^2<s<(m1+m2)^2 (s>0)", "m1=m2: 0<s<4m^2, s>4m^2"]},
        assumptions=[
            "log is an uninterpreted real function L on positive reals with the principal branch rule log x = L(-x) + i*pi for x<0 "
            "and the trusted axiom L(1/x) = -L(x); pi is an opaque constant in (3,4)",
            "log of a unit-modulus complex number z=x+iy (x>-1) is i*2*atan(y/(1+x)) (trusted axiom); |z|=1 and x>-1 are discharged as side obligations; atan is uninterpreted",
            "masses strictly positive",
        ],
        outside=[
            "continuity at threshold (a limit statement; belongs to a proof assistant)",
            "s <= 0 (sqrt(s) leaves the real-sqrt model), the points s=0, s=(m1+-m2)^2, masses = 0",
            "floating point",
        ],
    )


if __name__ == "__main__":
    main()
