"""C15  Pickle round trip of a model is the identity.

The pickle machinery is C code and runs concretely; the solver decides the numeric clause: for every
object x of the enumerated set and y = loads(dumps(x)) (same process, and dumped by a FRESH process
with another hash seed),  y.doit() == x.doit() for all inputs (E1) and the NumPy code generated from
y equals the code generated from x (E2).  Structural equality (y == x, srepr, per attribute of a model)
is a ground side-check.   DESIGN.md section 4, C15.
"""

from __future__ import annotations

import os
import pickle
import shutil
import subprocess
import sys
import tempfile

import numpy as np
import sympy as sp

from checks.c14 import code_cases, decorated_classes, instances, is_scalar_class
from vf.core import Ctx, Unsupported
from vf.harness import Check
from vf.replay import differs, subs_from_assignment
from vf.solve import Result, discharge, identity_obligations
from vf.sym2smt import Translator

# the fresh process (another hash seed) LOADS what this process dumped and dumps it again; this process loads the
# result.  (Rebuilding the object in the child would test formulate()'s purity -- property C06 -- not pickle.)
CHILD = r"""
import pickle, sys
sys.argv = ["x"]
sys.path[:0] = [{verif!r}, {src!r}]
import checks._c15_classes  # classes defined by the check itself
objs = pickle.load(open({inp!r}, "rb"))
pickle.dump(objs, open({out!r}, "wb"))
"""


from checks._c15_classes import SquaredSum  # noqa: E402


def build_objects(kind, key):
    import ampform.dynamics as dyn

    if kind == "class":
        cls = decorated_classes()[key]
        out = dict(instances(key, cls))
        if key.endswith("EnergyDependentWidth"):
            s_, m0, g0, m1, m2 = sp.symbols("s m0 Gamma0 m1 m2", nonnegative=True)
            out["non-default phsp + name"] = dyn.EnergyDependentWidth(s_, m0, g0, m1, m2, 1, 1, dyn.PhaseSpaceFactorSWave, "G")
            out["default phsp + name"] = dyn.EnergyDependentWidth(s_, m0, g0, m1, m2, 1, 1, name="G")
        # the unfolded forms are what perform_cached_doit writes to disk: they must pickle as well
        for name_, obj_ in list(out.items()):
            try:
                unfolded = obj_.doit()
            except Exception:  # noqa: BLE001
                continue
            if isinstance(unfolded, sp.Basic) and unfolded != obj_:
                out[f"{name_} (unfolded)"] = unfolded
        return out
    if kind == "code":
        return {key: code_cases()[key][1]}
    if kind == "custom":
        from checks._c15_classes import Mixed

        x_, y_ = sp.symbols("x y")
        return {"Mixed(x,'plus',y)": Mixed(x_, "plus", y_), "Mixed(nested)": Mixed(x_ + 1, "minus", Mixed(y_, "plus", x_))}
    if kind == "deprecated":
        x_, y_ = sp.symbols("x y")
        return {"unnamed": SquaredSum(x_, y_), "named": SquaredSum(x_, y_, name="N")}
    if kind == "model":
        from checks.c17 import make_model

        m = make_model(key)
        return {"intensity": m.intensity, "expression": m.expression, "kinematic_variables": dict(m.kinematic_variables),
                "kinematic_variables (unfolded)": {k: v.doit() for k, v in m.kinematic_variables.items()},
                "parameter_defaults": dict(m.parameter_defaults), "amplitudes": dict(m.amplitudes), "components": dict(m.components), "model": m}  # fmt: skip
    raise ValueError(kind)


def worker(config, tier, seed):
    try:
        return run(config, tier, seed)
    except Unsupported as exc:
        return [Result(name="translate", kind="identity", status="unknown", config=config["name"], detail=f"Unsupported: {exc}")]


def _flatten(name, obj):
    if isinstance(obj, dict):
        for k, v in obj.items():
            yield from _flatten(f"{name}[{str(k)[:50]}]", v)
    elif isinstance(obj, sp.Basic):
        yield name, obj


def run(config, tier, seed):
    kind, key = config["kind"], config["key"]
    out = []
    originals = build_objects(kind, key)
    loaded_sets = {}
    try:
        loaded_sets["same-process"] = pickle.loads(pickle.dumps(originals))
    except Exception as exc:  # noqa: BLE001
        return [Result(name="same-process: dumps/loads succeeds", kind="ground", status="fail", config=config["name"],
                       replay={"reproduced": True, "raises": f"{type(exc).__name__}: {str(exc)[:200]}"})]  # fmt: skip
    scratch = tempfile.mkdtemp(prefix="c15_", dir="/tmp")
    try:
        path = os.path.join(scratch, "obj.pkl")
        inp = os.path.join(scratch, "in.pkl")
        with open(inp, "wb") as fh:
            pickle.dump(originals, fh)
        src = os.environ.get("AMPFORM_SRC", "/repo/src")
        code = CHILD.format(verif="/verif", src=src, inp=inp, out=path)
        env = dict(os.environ, PYTHONHASHSEED="12345", PYTHONPATH=f"/verif:{src}", TQDM_DISABLE="1")
        proc = subprocess.run([sys.executable, "-W", "ignore", "-c", code], env=env, capture_output=True, text=True, timeout=600)
        if proc.returncode != 0:
            out.append(Result(name="fresh-process: load+dump succeeds", kind="ground", status="fail", config=config["name"],
                              replay={"reproduced": True, "stderr": proc.stderr[-300:]}))  # fmt: skip
        else:
            try:
                with open(path, "rb") as fh:
                    loaded_sets["fresh-process(seed 12345)"] = pickle.load(fh)  # noqa: S301
            except Exception as exc:  # noqa: BLE001
                out.append(Result(name="fresh-process: load succeeds", kind="ground", status="fail", config=config["name"],
                                  replay={"reproduced": True, "raises": f"{type(exc).__name__}: {str(exc)[:200]}"}))  # fmt: skip
    finally:
        shutil.rmtree(scratch, ignore_errors=True)
    flat_x = dict(_flatten("", {k: v for k, v in originals.items() if k != "model"}))
    for where, loaded in loaded_sets.items():
        flat_y = dict(_flatten("", {k: v for k, v in loaded.items() if k != "model"}))
        # ---- ground: structure
        missing = sorted(set(flat_x) ^ set(flat_y))
        out.append(Result(name=f"{where}: same set of objects/keys", kind="ground", status="ok" if not missing else "fail", config=config["name"],
                          replay={"reproduced": bool(missing), "keys": missing[:5]}))  # fmt: skip
        unequal = [n for n in flat_x if n in flat_y and (flat_x[n] != flat_y[n] or sp.srepr(flat_x[n]) != sp.srepr(flat_y[n]))]
        attr_diff = []
        for n in flat_x:
            if n in flat_y:
                for a_, b_ in zip(sp.preorder_traversal(flat_x[n]), sp.preorder_traversal(flat_y[n])):
                    sl = [s_ for s_ in getattr(type(a_), "__slots__", ()) if isinstance(s_, str)]
                    if type(a_) is not type(b_) or any(getattr(a_, s_, None) != getattr(b_, s_, None) for s_ in sl) or getattr(a_, "_name", None) != getattr(b_, "_name", None):
                        attr_diff.append(f"{n}: {type(a_).__name__}")
                        break
        out.append(Result(name=f"{where}: loaded == original (==, srepr, non-SymPy attributes)", kind="ground", status="ok" if not (unequal or attr_diff) else "fail",
                          config=config["name"], replay={"reproduced": bool(unequal or attr_diff), "unequal": unequal[:4], "attributes": attr_diff[:4]}))  # fmt: skip
        if "model" in originals:
            mx, my = originals["model"], loaded["model"]
            bad = [a for a in ("intensity", "amplitudes", "parameter_defaults", "kinematic_variables", "components", "reaction_info") if getattr(mx, a) != getattr(my, a)]
            order = [a for a in ("amplitudes", "parameter_defaults", "kinematic_variables", "components") if list(map(str, getattr(mx, a))) != list(map(str, getattr(my, a)))]
            out.append(Result(name=f"{where}: HelicityModel attributes equal, same key order", kind="ground", status="ok" if not (bad or order) else "fail", config=config["name"],
                              replay={"reproduced": bool(bad or order), "attributes": bad, "order": order}))  # fmt: skip
        # ---- solver: numeric clause
        if kind == "code":
            out += _code_clause(config, where, flat_x, flat_y)
        else:
            out += _numeric_clause(config, where, flat_x, flat_y, kind)
    for r in out:
        if r.status in ("sat", "fail"):
            r.selector = f"{config['name']}::{r.name.split('::')[0]}"
    return out


ARRAY_OPAQUE = ("InvariantMass", "Phi", "Theta", "ArraySum", "ArraySlice", "ArrayMultiplication", "BoostMatrix", "BoostZMatrix", "RotationYMatrix",
                "RotationZMatrix", "ArraySymbol", "ArrayAxisSum", "MatrixMultiplication", "NegativeMomentum", "Energy", "FourMomentumX", "FourMomentumY",
                "FourMomentumZ", "EuclideanNorm", "EuclideanNormSquared", "ThreeMomentum", "ArraySize", "_BoostMatrixImplementation", "_BoostZMatrixImplementation",
                "_RotationYMatrixImplementation", "_RotationZMatrixImplementation", "_OnesArray", "_ZerosArray", "MinkowskiMetric")  # fmt: skip


def _numeric_clause(config, where, flat_x, flat_y, kind):
    res = []
    names = [n for n in flat_x if n in flat_y]
    if kind == "model":
        names = [n for n in names if n.startswith(("[expression]", "[intensity]"))] + [n for n in names if n.startswith("[kinematic_variables]")][:6] + [n for n in names if n.startswith("[amplitudes]")][:3]
    for n in names:
        x_, y_ = flat_x[n], flat_y[n]
        ctx = Ctx(config["name"])
        ctx.implied_timeout_ms = 300
        tr = Translator(ctx, use_assumptions=False, uf_classes=("ComplexSqrt", "log", "atan", "Abs", "acos", "atan2", "EnergyDependentWidth", "FormFactor"),
                        opaque_classes=ARRAY_OPAQUE, opaque_real=True, complex_symbols=lambda s_: s_.name.startswith(("C_", "H_")))  # fmt: skip
        try:
            ex, ey = (x_.evaluate() if hasattr(x_, "evaluate") and kind != "model" else x_), (y_.evaluate() if hasattr(y_, "evaluate") and kind != "model" else y_)
            obs = identity_obligations(f"{where}: value of loaded == value of original {n[:60]}", tr(ey), tr(ex))
        except Unsupported as exc:
            res.append(Result(name=f"{where}: {n[:60]} [not encodable: {str(exc)[:60]}]", kind="ground", status="ok" if x_ == y_ else "fail", config=config["name"],
                              replay={"reproduced": x_ != y_}))  # fmt: skip
            continue
        except Exception as exc:  # noqa: BLE001
            res.append(Result(name=f"{where}: unfolding the loaded object {n[:60]}", kind="ground", status="fail", config=config["name"],
                              replay={"reproduced": True, "raises": f"{type(exc).__name__}: {str(exc)[:200]}"}))  # fmt: skip
            continue

        def replay(name, asg, x_=x_, y_=y_, tr=tr):
            subs = subs_from_assignment(tr, asg)
            try:
                lx, ly = x_.doit(), y_.doit()
            except Exception as exc:  # noqa: BLE001
                return {"reproduced": True, "raises": f"{type(exc).__name__}: {exc}"}
            for q, s_ in enumerate(sorted((lx.free_symbols | ly.free_symbols) - set(subs), key=str)):
                subs[s_] = sp.Rational(9 + q, 4)
            if lx != ly and not (lx.free_symbols | ly.free_symbols) <= set(subs):
                return {"reproduced": True, "note": "structurally different"}
            return differs(ly, lx, subs, rel=1e-10) if lx != ly else {"reproduced": False}

        res += discharge(ctx, obs, config=config["name"], replay=replay, timeout_s=20, hunt_rounds=2, sample_smt2=0)
    return res


def _code_clause(config, where, flat_x, flat_y):
    from vf.symnp import angle_array, generated_source, momentum_array, scalar_array, sym_exec

    res = []
    (n, x_), = flat_x.items()
    y_ = flat_y.get(n)
    if y_ is None:
        return res
    args = code_cases()[config["key"]][0]
    ctx = Ctx(config["name"])
    ins = []
    for s_ in args:
        nm = str(s_)
        ins.append(momentum_array(ctx, nm, 1) if nm in ("p", "k") else angle_array(ctx, nm, 1) if nm == "alpha" else scalar_array(ctx, nm, 1))
    try:
        fx, sx = generated_source(args, x_.doit(), cse=True)
        fy, sy = generated_source(args, y_.doit(), cse=True)
        vx = np.asarray(sym_exec(ctx, sx, ins, radicands="assume"), dtype=object)
        vy = np.asarray(sym_exec(ctx, sy, ins, radicands="assume"), dtype=object)
    except Exception as exc:  # noqa: BLE001
        return [Result(name=f"{where}: code generated from the loaded object executes", kind="ground", status="fail", config=config["name"],
                       replay={"reproduced": True, "raises": f"{type(exc).__name__}: {str(exc)[:200]}"})]  # fmt: skip
    obs = []
    if vx.shape != vy.shape:
        return [Result(name=f"{where}: shapes", kind="ground", status="fail", config=config["name"], replay={"reproduced": True})]
    for idx in np.ndindex(vx.shape):
        obs += identity_obligations(f"{where}: code(loaded) == code(original) {list(idx)}", vy[idx], vx[idx])

    def replay(name, asg):
        return {"reproduced": sx != sy, "note": "generated sources differ" if sx != sy else "generated sources identical"}

    return discharge(ctx, obs, config=config["name"], replay=replay, timeout_s=20, hunt_rounds=0, sample_smt2=0)


def configs(tier):
    out = []
    for qual in sorted(decorated_classes()):
        if is_scalar_class(qual) or tier == "thorough":
            out.append({"name": f"class:{qual}", "kind": "class", "key": qual})
    for case in code_cases():
        out.append({"name": f"code:{case}", "kind": "code", "key": case})
    out.append({"name": "deprecated:UnevaluatedExpression", "kind": "deprecated", "key": "x"})
    out.append({"name": "custom:non-SymPy attribute between SymPy arguments", "kind": "custom", "key": "x"})
    for m in ("bw", "stable", "dpd") if tier == "thorough" else ("stable", "dpd"):
        out.append({"name": f"model:{m}", "kind": "model", "key": m, "config_timeout": 600})
    return out


def main():
    from ampform.sympy import _decorator as d
    from ampform.sympy import deprecated as dep

    chk = Check("C15", __doc__)
    chk.run(worker, configs(chk.tier))
    chk.finish(
        functions=[d._implement_new_method, d._get_arguments, dep.UnevaluatedExpression.__getnewargs_ex__],
        bounds={"objects": "instances of every decorated class (3-4 argument shapes, non-SymPy attributes), printable array expressions, a deprecated UnevaluatedExpression, "
                "expression/intensity/kinematic variables/amplitudes of formulated models", "processes": "same process; dumped by a fresh process with PYTHONHASHSEED=12345"},  # fmt: skip
        assumptions=["pickle itself runs concretely; the solver decides value equality of loaded vs original", "array-valued nodes opaque; branchy functions uninterpreted functions of their arguments"],
        outside=["other pickle protocols than the default", "models not listed"],
    )


if __name__ == "__main__":
    main()
