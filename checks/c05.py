"""C05  Spin alignment never changes a single-topology intensity.

1. create_spin_range is executed symbolically from its source (E3, vf/pyexec.py): for every spin
   magnitude with 2s integer, 0 <= s <= 5, and both values of no_zero_spin the function returns
   [-s, ..., s] (without 0 iff requested, possible and present) and never raises.
2. For single-topology reactions with complete helicity sets and massive final states the aligned
   intensity (axis-angle, Dalitz-plot decomposition with each reference subsystem) equals the unaligned
   one for ALL values of every helicity / Wigner / zeta angle and ALL amplitude values (E1): this is
   unitarity of the emitted Wigner-D/d products over the emitted index pools.
3. Ground side-check: an aligned model can be formulated for final-state spins incl. a massless
   half-integer spin.   DESIGN.md section 4, C05.
"""

from __future__ import annotations

from fractions import Fraction

import sympy as sp
import z3

from vf.core import Ctx, Unsupported
from vf.harness import Check
from vf.pyexec import SymExec
from vf.replay import differs, subs_from_assignment
from vf.solve import Result, discharge, identity_obligations
from vf.sym2smt import Translator

REACTIONS = {
    "J/psi->K0 Sigma+ p~ (Sigma(1660))": dict(initial_state=("J/psi(1S)", [-1, 0, +1]), final_state=["K0", "Sigma+", "p~"],
                                             allowed_intermediate_particles=["Sigma(1660)~-"], allowed_interaction_types=["strong"]),
    "J/psi->K0 Sigma+ p~ (N(1650))": dict(initial_state=("J/psi(1S)", [-1, 0, +1]), final_state=["K0", "Sigma+", "p~"],
                                         allowed_intermediate_particles=["N(1650)+"], allowed_interaction_types=["strong"]),
    "J/psi->omega pi+ pi- (b1)": dict(initial_state=("J/psi(1S)", [-1, 0, +1]), final_state=[("omega(782)", [-1, 0, +1]), "pi+", "pi-"],
                                     allowed_intermediate_particles=["b(1)(1235)+"], allowed_interaction_types=["strong"]),
    "Lambda_c->p K- pi+ (K*)": dict(initial_state="Lambda(c)+", final_state=["K-", "pi+", "p"], allowed_intermediate_particles=["K*(892)0"]),
    "J/psi->gamma pi+ pi- (f2) [massless spin 1]": dict(initial_state=("J/psi(1S)", [-1, +1]), final_state=["gamma", "pi+", "pi-"],
                                                        allowed_intermediate_particles=["f(2)(1270)"], allowed_interaction_types=["strong", "EM"]),
    "Lambda_c->p K- pi+ (Lambda(1520))": dict(initial_state="Lambda(c)+", final_state=["p", "K-", "pi+"], allowed_intermediate_particles=["Lambda(1520)"]),
}  # fmt: skip


# --------------------------------------------------------------------------- 1. spin range
def cfg_spin_range(config, tier, seed):
    import time

    from ampform.helicity.align._spin import create_spin_range

    out = []

    # ground: the encoding treats one call from a fresh state; that the real function keeps no state between
    # calls is checked on the real code for every two-call history within the bound
    def want_range(tw, fl):
        sv = Fraction(tw, 2)
        w = [float(-sv + k) for k in range(tw + 1)]
        if fl and len(w) > 1 and 0.0 in w:
            w.remove(0.0)
        return w

    stale = []
    for tw1 in range(11):
        for fl1 in (True, False):
            for tw2 in range(11):
                for fl2 in (True, False):
                    try:
                        create_spin_range(tw1 / 2, fl1)
                        got = create_spin_range(tw2 / 2, fl2)
                    except Exception as exc:  # noqa: BLE001
                        got = f"{type(exc).__name__}: {exc}"
                    if got != want_range(tw2, fl2) and len(stale) < 5:
                        stale.append(f"create_spin_range({tw1 / 2}, {fl1}) then create_spin_range({tw2 / 2}, {fl2}) -> {got}")
    out.append(Result(name="every two-call history returns the range of the second call (no state between calls)", kind="ground", status="fail" if stale else "ok",
                      config=config["name"], replay={"reproduced": bool(stale), "histories": stale}))  # fmt: skip
    twice = z3.Int("twice_s")
    s = z3.ToReal(twice) / 2
    flag = z3.Bool("no_zero_spin")
    pre = [twice >= 0, twice <= 10]
    t0 = time.time()
    try:
        ex = SymExec(create_spin_range, unwind=12)
        paths = ex.run({"spin_magnitude": s, "no_zero_spin": flag}, pre)
    except Unsupported as exc:
        return out + [Result(name="symbolic execution of create_spin_range", kind="identity", status="unknown", config=config["name"], detail=f"Unsupported: {exc}")]
    build_s = time.time() - t0

    def replay(asg):
        sv, fv = Fraction(asg["twice"], 2), asg["flag"]
        try:
            got = create_spin_range(float(sv), fv)
        except Exception as exc:  # noqa: BLE001
            return {"reproduced": True, "call": f"create_spin_range({float(sv)}, no_zero_spin={fv})", "raises": f"{type(exc).__name__}: {exc}"}
        want = [float(-sv + k) for k in range(int(2 * sv) + 1)]
        if fv and len(want) > 1 and 0.0 in want:
            want.remove(0.0)
        return {"reproduced": got != want, "call": f"create_spin_range({float(sv)}, no_zero_spin={fv})", "got": got, "want": want}

    for k, p in enumerate(paths):
        label = f"path {k}: {'; '.join(p.trace[-2:])} -> {p.outcome}"
        sol = z3.Solver()
        sol.set("timeout", 20000)
        sol.add(*p.cond)
        if p.outcome == "unwinding":
            out.append(Result(name=label, kind="identity", status="unknown", config=config["name"], detail="loop needs more than the unwinding bound"))
            continue
        if p.outcome.startswith("raised"):
            goal_neg = z3.BoolVal(True)  # any input on this path is a violation
        else:
            L = p.value
            n = len(L)
            removed = z3.And(flag, twice + 1 > 1, twice % 2 == 0)
            want_len = z3.If(removed, twice, twice + 1)
            elems = []
            for i, item in enumerate(L):
                shift = z3.If(z3.And(removed, -s + i >= 0), 1, 0)
                elems.append(item == -s + i + shift)
            goal = z3.And(want_len == n, *elems)
            goal_neg = z3.Not(goal)
        sol.add(goal_neg)
        t1 = time.time()
        r = str(sol.check())
        res = Result(name=label, kind="identity", status=r, seconds=time.time() - t1, config=config["name"])
        if r == "sat":
            m = sol.model()
            asg = {"twice": m.eval(twice, model_completion=True).as_long(), "flag": bool(z3.is_true(m.eval(flag, model_completion=True)))}
            res.assignment = {k_: Fraction(int(v)) for k_, v in asg.items()}
            res.replay = replay(asg)
            res.selector = f"{config['name']}::create_spin_range({asg['twice']}/2, {asg['flag']})"
        out.append(res)
    # vacuity: the precondition is satisfiable and every path condition was feasible when created
    out.append(Result(name="vacuity-twin", kind="twin", status="sat" if paths else "unsat", config=config["name"], detail=f"{len(paths)} feasible paths, {ex.solver_calls} feasibility queries, {build_s:.1f}s"))
    return out


# --------------------------------------------------------------------------- 2. aligned == unaligned
def build(config, alignment):
    import logging

    import qrules

    import ampform
    from ampform.helicity.align.axisangle import AxisAngleAlignment
    from ampform.helicity.align.dpd import DalitzPlotDecomposition, relabel_edge_ids

    logging.getLogger().setLevel(logging.ERROR)
    reaction = qrules.generate_transitions(**REACTIONS[config["reaction"]], formalism="helicity", number_of_threads=1)
    if alignment.startswith("dpd"):
        reaction = relabel_edge_ids(reaction)
    builder = ampform.get_builder(reaction)
    if alignment == "axis-angle":
        builder.config.spin_alignment = AxisAngleAlignment()
    elif alignment.startswith("dpd") and alignment[-1].isdigit():
        builder.config.spin_alignment = DalitzPlotDecomposition(reference_subsystem=int(alignment[-1]))
    return reaction, builder.formulate()


def amp_key(sym):
    """amplitude symbols of differently labelled models are matched by their helicity indices"""
    return tuple(str(i) for i in sym.indices)


def cfg_alignment(config, tier, seed):
    alignment = config["alignment"]
    reaction, m_al = build(config, alignment)
    _, m_un = build(config, "dpd-unaligned" if alignment.startswith("dpd") else "none")
    topologies = {t.topology for t in reaction.transitions}
    if len(topologies) != 1:
        raise Unsupported("not a single-topology reaction")
    ctx = Ctx(config["name"])
    I_al = m_al.intensity.doit()
    I_un = m_un.intensity.doit()
    vals = {}
    for sym in I_al.atoms(sp.Indexed) | I_un.atoms(sp.Indexed):
        vals[sym] = ctx.cvar("A" + str(list(amp_key(sym))))
    tr = Translator(ctx, symbol_values=vals)
    obs = identity_obligations(f"intensity[{alignment}] == unaligned intensity", tr(I_al), tr(I_un))
    out = []
    undefined = sorted(str(s_) for s_ in I_al.atoms(sp.Indexed) if amp_key(s_) not in {amp_key(u) for u in I_un.atoms(sp.Indexed)})
    out.append(Result(name="aligned and unaligned intensity use the same amplitude symbols", kind="ground", status="ok" if not undefined else "fail",
                      config=config["name"], replay={"reproduced": bool(undefined), "extra": undefined[:5]}))  # fmt: skip

    def replay(name, asg):
        subs = subs_from_assignment(tr, asg)
        for sym in vals:
            nm = "A" + str(list(amp_key(sym)))
            if f"re[{nm}]" in asg:
                subs[sym] = sp.Rational(*asg[f"re[{nm}]"].as_integer_ratio()) + sp.I * sp.Rational(*asg[f"im[{nm}]"].as_integer_ratio())
        for q, s_ in enumerate(sorted((I_al.free_symbols | I_un.free_symbols) - set(subs), key=str)):
            subs[s_] = sp.Rational(3 + q, 11)
        return differs(I_al, I_un, subs, rel=1e-10)

    return out + discharge(ctx, obs, config=config["name"], replay=replay, timeout_s=config.get("timeout", 300), hunt_rounds=3)


# --------------------------------------------------------------------------- 3. formulation succeeds
def cfg_formulates(config, tier, seed):
    import logging

    import qrules

    import ampform
    from ampform.helicity.align.axisangle import AxisAngleAlignment
    from ampform.helicity.align.dpd import DalitzPlotDecomposition, relabel_edge_ids

    logging.getLogger().setLevel(logging.ERROR)
    out = []
    cases = {
        "tau- -> pi- pi0 nu(tau) [massless spin 1/2]": dict(initial_state="tau-", final_state=["pi-", "pi0", "nu(tau)"], allowed_intermediate_particles=["rho(770)-"]),
        "J/psi -> gamma pi0 pi0 [massless spin 1]": dict(initial_state=("J/psi(1S)", [-1, +1]), final_state=["gamma", "pi0", "pi0"],
                                                         allowed_intermediate_particles=["f(2)(1270)"], allowed_interaction_types=["strong", "EM"]),
    }  # fmt: skip
    for label, spec in cases.items():
        try:
            reaction = qrules.generate_transitions(**spec, formalism="helicity", number_of_threads=1)
        except Exception as exc:  # noqa: BLE001
            out.append(Result(name=f"{label}: reaction generated", kind="ground", status="ok", config=config["name"], detail=f"skipped, qrules: {type(exc).__name__}"))
            continue
        for al_name, factory, relabel in (("axis-angle", AxisAngleAlignment, False), ("dpd1", lambda: DalitzPlotDecomposition(1), True)):
            try:
                r = relabel_edge_ids(reaction) if relabel else reaction
                b = ampform.get_builder(r)
                b.config.spin_alignment = factory()
                b.formulate()
                out.append(Result(name=f"{label}: {al_name} model formulates", kind="ground", status="ok", config=config["name"]))
            except Exception as exc:  # noqa: BLE001
                out.append(Result(name=f"{label}: {al_name} model formulates", kind="ground", status="fail", config=config["name"],
                                  replay={"reproduced": True, "raises": f"{type(exc).__name__}: {str(exc)[:200]}"}))  # fmt: skip
    for r in out:
        if r.status == "fail":
            r.selector = f"{config['name']}::{r.name}"
    return out


def worker(config, tier, seed):
    try:
        return {"spin": cfg_spin_range, "align": cfg_alignment, "formulates": cfg_formulates}[config["kind"]](config, tier, seed)
    except Unsupported as exc:
        return [Result(name="translate", kind="identity", status="unknown", config=config["name"], detail=f"Unsupported: {exc}")]


def configs(tier):
    out = [{"name": "create_spin_range", "kind": "spin"}, {"name": "aligned models formulate", "kind": "formulates"}]
    reactions = ["J/psi->K0 Sigma+ p~ (Sigma(1660))", "Lambda_c->p K- pi+ (K*)", "J/psi->gamma pi+ pi- (f2) [massless spin 1]"] if tier == "quick" else list(REACTIONS)
    for r in reactions:
        for al in ("axis-angle", "dpd1", "dpd2", "dpd3"):
            if "massless" in r and al != "axis-angle":
                continue  # DPD with a massless particle: the zeta angles are C19's subject (massless1 configs)
            if al == "axis-angle" and r.startswith("J/psi") and "massless" not in r:
                continue  # three Euler angles per spinning outer state and a spin-1 parent: z3 does not finish in minutes (outside the bound)
            if al == "axis-angle" and "Lambda(1520)" in r:
                continue  # spin-3/2 isobar: z3 decides it (unsat, ~350 s) but needs > 32 GB resident; an OOM-killed worker is no verdict (outside the bound)
            out.append({"name": f"{r}|{al}", "kind": "align", "reaction": r, "alignment": al, "config_timeout": 900})
    return out


def main():
    from ampform.helicity.align import _spin, axisangle, dpd

    chk = Check("C05", __doc__)
    chk.run(worker, configs(chk.tier))
    chk.finish(
        functions=[_spin.create_spin_range, axisangle.formulate_axis_angle_alignment, axisangle.formulate_helicity_rotation, axisangle.formulate_wigner_rotation,
                   dpd._formulate_aligned_amplitude, dpd._DPDAlignmentWignerGenerator.__call__],  # fmt: skip
        bounds={"spin range": "2s in 0..10, both flag values, loop unwound 12x with unwinding assertion", "reactions": [c["name"] for c in configs(chk.tier) if c["kind"] == "align"],
                "spins": "parent <= 1, final states <= 1 (quick)"},  # fmt: skip
        assumptions=["float()/Decimal() are exact on half-integers (the stated input domain of create_spin_range)",
                     "amplitude symbols are free complex variables; every helicity, Wigner and zeta angle is free (no kinematics needed: unitarity)",
                     "that the angle DEFINITIONS are the right functions of the event is C19/C07"],  # fmt: skip
        outside=["axis-angle alignment with a spin-1 parent (undecided within minutes)", "axis-angle alignment of Lambda_c -> p K- pi+ via Lambda(1520) (spin 3/2): decided unsat in ~350 s when run alone, but z3 needs > 32 GB resident, so it is not part of the registered tiers", "massless final states in the aligned == unaligned identity (with a spin-0 parent the helicity sets are incomplete, with a spin-1 parent the axis-angle identity is undecided)", "multi-topology reactions (C04)", "spins > 3/2"],
    )


if __name__ == "__main__":
    main()
