"""C13  Dynamics attach to the right decay with the right variables and defaults.

Encoded from /repo (E1): DynamicsSelector.assign (str / Particle / TwoBodyDecay / tuple),
__formulate_dynamics, _generate_kinematic_variable_set, get_invariant_mass_symbol, and the
lineshape builders.   DESIGN.md section 4, C13.

For a model M0 without dynamics and M1 after a sequence of assign() calls:
  every chain component  A1 == A0 * prod_{nodes} builder_last_applicable(parent particle, V_node)[0]
with V_node built by the reference from the transition alone; and the full intensity equals the
reference helicity formula with those lineshapes (identical particles symmetrised).  A custom builder
returns an UNINTERPRETED function of (m_parent, m_d1, m_d2, L, theta, phi), so *which* variables
arrive is checked for every possible builder.
"""

from __future__ import annotations

import sympy as sp

from checks.c02 import REACTIONS, holds, is_coeff
from vf.core import Ctx, Unsupported
from vf.harness import Check
from vf.refmodel import F, chain_amplitude, node_decay, outer_key, symmetrised
from vf.replay import differs, subs_from_assignment
from vf.solve import Result, discharge, identity_obligations
from vf.sym2smt import Translator

REACTIONS.update({
    "J/psi->pi0 pi+ pi- (rho)": dict(initial_state=("J/psi(1S)", [-1, +1]), final_state=["pi0", "pi+", "pi-"],
                                    allowed_intermediate_particles=["rho(770)"], allowed_interaction_types=["strong"]),
    "eta_c->pi0 eta eta' (a0,a2)": dict(initial_state="eta(c)(1S)", final_state=["pi0", "eta", "eta'(958)"],
                                       allowed_intermediate_particles=["a(0)(1450)0", "a(2)(1320)0"], allowed_interaction_types=["strong", "em"]),
    "J/psi->omega pi+ pi- (b1)": dict(initial_state=("J/psi(1S)", [+1]), final_state=[("omega(782)", [-1, 0, +1]), "pi+", "pi-"],
                                     allowed_intermediate_particles=["b(1)(1235)+"], allowed_interaction_types=["strong"]),
})  # fmt: skip

# C13 is about WHICH builder is attached with WHICH variables; the algebra inside the lineshape classes is C12's.
# Every lineshape node is therefore opaque: one complex unknown per structurally distinct node (class + arguments).
OPAQUE = ("PhaseSpaceFactorSWave", "EqualMassPhaseSpaceFactor", "PhaseSpaceFactor", "PhaseSpaceFactorAbs", "PhaseSpaceFactorComplex",
          "EnergyDependentWidth", "FormFactor", "BlattWeisskopfSquared", "BreakupMomentumSquared")


def builders():
    from ampform.dynamics import builder as b

    def uf(resonance, pool):
        f = sp.Function("dyn[" + resonance.name + "]", real=True)
        L = -1 if pool.angular_momentum is None else pool.angular_momentum
        return f(pool.incoming_state_mass, pool.outgoing_state_mass1, pool.outgoing_state_mass2, sp.Integer(L), pool.helicity_theta, pool.helicity_phi), {}

    def uf2(resonance, pool):
        f = sp.Function("dyn2[" + resonance.name + "]", real=True)
        L = -1 if pool.angular_momentum is None else pool.angular_momentum
        return f(pool.incoming_state_mass, pool.outgoing_state_mass1, pool.outgoing_state_mass2, sp.Integer(L), pool.helicity_theta, pool.helicity_phi), {}

    return {
        "bw": b.create_relativistic_breit_wigner,
        "bw_ff": b.create_relativistic_breit_wigner_with_ff,
        "ff": b.create_non_dynamic_with_ff,
        "analytic": b.create_analytic_breit_wigner,
        "none": b.create_non_dynamic,
        "uf": uf,
        "uf2": uf2,
    }


def node_key(t, node_id):
    """what 'one specific decay' means: parent and children states (with ids and helicities) and the interaction"""
    parent, a, b = node_decay(t.topology, node_id)
    st = lambda i: (i, t.states[i].particle.name, F(t.states[i].spin_projection))  # noqa: E731
    inter = t.interactions[node_id]
    return (st(parent), st(a), st(b), (inter.l_magnitude, inter.s_magnitude, inter.parity_prefactor))


def variable_set(t, node_id):
    from ampform.dynamics.builder import TwoBodyKinematicVariableSet
    from ampform.helicity.naming import get_helicity_angle_symbols
    from ampform.kinematics.lorentz import get_invariant_mass_symbol

    parent, a, b = node_decay(t.topology, node_id)
    phi, theta = get_helicity_angle_symbols(t.topology, a)
    L = t.interactions[node_id].l_magnitude
    if L is None and F(t.states[parent].particle.spin).denominator == 1:
        L = int(t.states[parent].particle.spin)
    return TwoBodyKinematicVariableSet(
        incoming_state_mass=get_invariant_mass_symbol(t.topology, parent),
        outgoing_state_mass1=get_invariant_mass_symbol(t.topology, a),
        outgoing_state_mass2=get_invariant_mass_symbol(t.topology, b),
        helicity_theta=theta, helicity_phi=phi, angular_momentum=L,
    )  # fmt: skip


def worker(config, tier, seed):
    try:
        return run(config, tier, seed)
    except Unsupported as exc:
        return [Result(name="translate", kind="identity", status="unknown", config=config["name"], detail=f"Unsupported: {exc}")]


def run(config, tier, seed):
    import logging

    import qrules

    import ampform
    from ampform.helicity.decay import TwoBodyDecay

    logging.getLogger().setLevel(logging.ERROR)
    reaction = qrules.generate_transitions(**REACTIONS[config["reaction"]], formalism=config["formalism"], number_of_threads=1)
    canonical = config["formalism"] == "canonical-helicity"
    B = builders()
    b0 = ampform.get_builder(reaction)
    m0 = b0.formulate()
    b1 = ampform.get_builder(reaction)
    # ---- reference state of the selector + the library calls
    rules: list = []  # ordered assignments: ("name", particle name, builder) | ("decay", node key, builder)

    class _State:
        def __getitem__(self, key):
            parent_name = key[0][1]
            for kind_, target_, b_ in reversed(rules):
                if (kind_ == "name" and target_ == parent_name) or (kind_ == "decay" and target_ == key):
                    return b_
            return "none"

        def __setitem__(self, key, value):
            rules.append(("decay", key, value))

    state = _State()
    initial = {t.states[i].particle.name for t in reaction.transitions for i in t.topology.incoming_edge_ids}
    resonances = sorted({t.states[node_decay(t.topology, n)[0]].particle.name for t in reaction.transitions for n in t.topology.nodes} - initial)
    script = config["script"]
    for kind, target, bkey in script:
        if kind == "name":
            name = resonances[target % len(resonances)]
            b1.dynamics.assign(name, B[bkey])
            rules.append(("name", name, bkey))
        elif kind == "particle":
            name = resonances[target % len(resonances)]
            part = next(t.states[node_decay(t.topology, n)[0]].particle for t in reaction.transitions for n in t.topology.nodes
                        if t.states[node_decay(t.topology, n)[0]].particle.name == name)  # fmt: skip
            b1.dynamics.assign(part, B[bkey])
            rules.append(("name", name, bkey))
        else:  # one specific decay
            res_idx, which = target  # the which-th decay node whose parent is resonance number res_idx
            name = resonances[res_idx % len(resonances)]
            cands = [(t_, n_) for t_ in reaction.transitions for n_ in sorted(t_.topology.nodes)
                     if t_.states[node_decay(t_.topology, n_)[0]].particle.name == name]  # fmt: skip
            t, n = cands[which % len(cands)]
            sel = TwoBodyDecay.from_transition(t, n) if kind == "decay" else (t, n)
            b1.dynamics.assign(sel, B[bkey])
            state[node_key(t, n)] = bkey
    m1 = b1.formulate()
    # ---- obligations
    ctx = Ctx(config["name"])
    tr = Translator(ctx, complex_symbols=is_coeff, branch_by_solver=False, opaque_classes=OPAQUE, name_classes=())
    out, obs, pairs = [], [], {}
    defaults_expected: dict = {}

    def lineshape(t, node_id, parent=None, a=None, b=None):
        bkey = state[node_key(t, node_id)]
        expr, pars = B[bkey](t.states[node_decay(t.topology, node_id)[0]].particle, variable_set(t, node_id))
        for k_, v in pars.items():
            defaults_expected.setdefault(str(k_), set()).add(v)
        return expr

    for t in reaction.transitions:
        name = "A_{" + b1.naming.generate_amplitude_name(t) + "}"
        if name not in m1.components or name not in m0.components:
            continue
        # the component of a symmetrised chain holds the last permutation: compare against each
        cands = symmetrised(t)
        a0 = m0.components[name]
        a1 = m1.components[name]
        V1 = tr(a1)
        chosen = None
        for s_ in cands:
            dyn = sp.Mul(*[lineshape(s_, n) for n in sorted(s_.topology.nodes)])
            if holds(ctx, V1, tr(a0 * dyn)):
                chosen = dyn
                break
        if chosen is None:
            chosen = sp.Mul(*[lineshape(t, n) for n in sorted(t.topology.nodes)])
        label = f"chain {name}: with dynamics == without * selected lineshapes"
        obs += identity_obligations(label, V1, tr(a0 * chosen))
        pairs[label] = (a1, a0 * chosen)
    # every term of every amplitude definition (incl. the copies for permuted identical particles) ==
    # the corresponding term without dynamics * the lineshapes of ITS OWN nodes
    from checks.c02 import META, match_terms, reference_groups, term_list

    groups, _info = reference_groups(reaction, b0, m0, canonical)
    meta = META[id(groups)]
    flat_terms = [(key, q) for key, terms in groups.items() for q in range(len(terms))]
    all_ref = [groups[key][q] for key, q in flat_terms]
    for A, def0 in m0.amplitudes.items():
        if def0 == 0 or A not in m1.amplitudes:
            continue
        args0, args1 = term_list(def0), term_list(m1.amplitudes[A])
        res0, _ = match_terms(ctx, tr, args0, all_ref)
        expected = []
        for a0, hit in zip(args0, res0):
            if hit is None:
                raise Unsupported(f"term without dynamics is not a reference chain (property C02): {str(a0)[:80]}")
            key, q = flat_terms[hit]
            s_ = meta[key][q]
            expected.append(a0 * sp.Mul(*[lineshape(s_, n) for n in sorted(s_.topology.nodes)]))
        res1, used = match_terms(ctx, tr, args1, expected)
        for a1, hit in zip(args1, res1):
            target = expected[hit] if hit is not None else next((e for q, e in enumerate(expected) if q not in used), expected[0])
            label = f"amplitude {A}: term with dynamics == term without * lineshapes of its own nodes: {str(a1)[:50]}"
            obs += identity_obligations(label, tr(a1), tr(target))
            pairs[label] = (a1, target)
        ok = None not in res1 and len(used) == len(expected)
        out.append(Result(name=f"amplitude {A}: one-to-one correspondence of terms with and without dynamics", kind="ground", status="ok" if ok else "fail",
                          config=config["name"], replay={"reproduced": not ok, "terms": [len(args1), len(expected)]}))  # fmt: skip
    # ---- ground side-checks: defaults
    got = {str(k_): v for k_, v in m1.parameter_defaults.items()}
    bad = {k_: (got.get(k_), sorted(map(str, v))) for k_, v in defaults_expected.items() if len(v) != 1 or got.get(k_) != next(iter(v))}
    out.append(Result(name="parameter defaults == builder suggestions (particle table mass/width, radius 1), equal names carry equal values",
                      kind="ground", status="ok" if not bad else "fail", config=config["name"], replay={"reproduced": bool(bad), "mismatch": str(bad)[:300]}))  # fmt: skip

    def replay(name, asg):
        lhs, rhs = pairs[name.split("::")[0]]
        subs = subs_from_assignment(tr, asg)
        ufs = {f_ for f_ in (lhs.atoms(sp.Function) | rhs.atoms(sp.Function)) if type(f_).__name__.startswith("dyn")}
        rep = {f_: 1 + sum((q + 2) * sp.sympify(a_) ** (q + 1) for q, a_ in enumerate(f_.args)) * (3 if type(f_).__name__.startswith("dyn2") else 1) for f_ in ufs}
        lhs2, rhs2 = lhs.doit().xreplace(rep), rhs.doit().xreplace(rep)
        for q, s_ in enumerate(sorted((lhs2.free_symbols | rhs2.free_symbols) - set(subs), key=str)):
            subs[s_] = sp.Rational(5 + q, 4)
        return differs(lhs2, rhs2, subs, rel=1e-9)

    res = discharge(ctx, obs, config=config["name"], replay=replay, timeout_s=config.get("timeout", 120), hunt_rounds=4)
    for r in out + res:
        if r.status in ("sat", "fail"):
            r.selector = f"{config['name']}::{r.name.split('::')[0]}"
    return out + res


def configs(tier):
    scripts = {
        "name:uf": [("name", 0, "uf"), ("name", 1, "uf")],
        "name:bw_ff": [("name", 0, "bw_ff"), ("name", 1, "bw")],
        "decay-then-name": [("decay", (0, 1), "uf"), ("name", 0, "uf2")],
        "name-then-decay": [("name", 0, "uf"), ("name", 1, "uf"), ("decay", (0, 1), "uf2")],
        "decay-name-decay": [("decay", (1, 0), "uf2"), ("name", 1, "bw"), ("decay", (1, 2), "uf")],
        "tuple+reassign": [("tuple", (0, 1), "uf"), ("tuple", (0, 1), "uf2"), ("particle", 1, "ff")],
        "analytic": [("name", 0, "analytic"), ("name", 1, "uf")],
    }
    out = []
    reactions = ["J/psi->gamma f0,f2", "J/psi->pi0 pi+ pi- (rho)", "J/psi->K0 Sigma+ p~"]
    if tier == "thorough":
        reactions += ["J/psi->omega pi+ pi- (b1)", "D0->K0 K+ K- (a0,phi)"]
    # an S-wave node with a spin-1 parent (L = 0 must reach the builder), and one resonance in several topologies
    out.append({"name": "J/psi->omega pi+ pi- (b1)|canonical-helicity|name:uf", "reaction": "J/psi->omega pi+ pi- (b1)", "formalism": "canonical-helicity", "script": scripts["name:uf"]})
    out.append({"name": "eta_c->pi0 eta eta' (a0,a2)|canonical-helicity|name:uf", "reaction": "eta_c->pi0 eta eta' (a0,a2)", "formalism": "canonical-helicity", "script": scripts["name:uf"]})
    for r in reactions:
        for formalism in ("helicity", "canonical-helicity"):
            for sname, sc in scripts.items():
                if tier == "quick" and (formalism == "helicity") == (sname in ("name:bw_ff", "tuple+reassign", "analytic", "decay-name-decay")):
                    continue
                if formalism == "helicity" and "Sigma" in r and sname in ("name:bw_ff", "tuple+reassign", "analytic"):
                    continue  # no unique L in the helicity formalism: the library refuses form factors there (ValueError, documented)
                out.append({"name": f"{r}|{formalism}|{sname}", "reaction": r, "formalism": formalism, "script": sc})
    return out


def main():
    import ampform.helicity as h
    from ampform.dynamics import builder as b
    from ampform.kinematics import lorentz

    chk = Check("C13", __doc__)
    chk.run(worker, configs(chk.tier))
    chk.finish(
        functions=[h.DynamicsSelector.assign, h.DynamicsSelector.__getitem__, h._generate_kinematic_variable_set, h._generate_kinematic_variables,
                   lorentz.get_invariant_mass_symbol, b.RelativisticBreitWignerBuilder.__call__, b.create_non_dynamic_with_ff],  # fmt: skip
        bounds={"reactions": "3 quick / 6 thorough x 2 formalisms", "scripts": "7 assignment histories of <= 3 assignments incl. re-assignment, by name / Particle / TwoBodyDecay / tuple"},
        assumptions=[
            "custom builders are uninterpreted functions of (m_parent, m_d1, m_d2, L, theta, phi) (Ackermannised)",
            "'one specific decay' = equal parent and children states (ids, particles, helicities) and interaction",
            "d1 is the helicity child (smaller attached final-state tuple); L = interaction.l_magnitude, else the parent spin if integer",
            "S-wave / equal-mass phase-space factors opaque (one unknown per structurally distinct node)",
        ],
        outside=["longer assignment histories", "builders with side effects", "reactions with identical final-state particles attached to different nodes (omega -> gamma pi0 next to a pi0): not decided within the time limit"],
    )


if __name__ == "__main__":
    main()
