"""C09  K-matrix amplitudes are unitary and symmetric for real parameters.

Encoded from /repo (E1): NonRelativisticKMatrix/RelativisticKMatrix.formulate and
.parametrization, _create_rho_matrix, EnergyDependentWidth, FormFactor,
BlattWeisskopfSquared, PhaseSpaceFactor*.   DESIGN.md section 4, C09.

Level 1 (abstract): for every real symmetric K (and rho_i > 0) the emitted T satisfies
    (1+2iT)^dagger (1+2iT) = 1,  T = T^T,  T (1 - iK) = K   [ T-hat (1 - i rho K) = K ].
Level 2 (parametrisation): every K_ij emitted by .parametrization() is real (all radicands
    >= 0 on the domain) and symmetric.
Level 3 (composition): formulate(parametrize=True) == abstract T with K_ij := parametrization,
    rho_i := phsp_factor(s, m_a[i], m_b[i]).
Unitarity of the parametrised T follows by instantiating level 1 (a universally quantified
statement) with the real symmetric K of level 2 through the equality of level 3.
"""

from __future__ import annotations

import itertools

import sympy as sp
import z3

from vf.core import Ctx, Unsupported
from vf.harness import Check
from vf.replay import differs, subs_from_assignment
from vf.solve import Obligation, Result, discharge, identity_obligations, side_obligations
from vf.sym2smt import Translator


def _km():
    from ampform.dynamics import kmatrix

    return kmatrix


def _phsp(name):
    import ampform.dynamics as dyn

    return getattr(dyn, name)


def _sym_K_values(ctx, T, n):
    """K real symmetric: K[j,i] is the same solver variable as K[i,j]."""
    K = sp.IndexedBase("K", shape=(n, n))
    vals = {}
    for i in range(n):
        for j in range(i, n):
            v = ctx.var(f"K[{i}, {j}]")
            vals[K[i, j]] = v
            vals[K[j, i]] = v
    # make sure we hit the library's own Indexed objects (same name & shape -> equal)
    for sym in T.atoms(sp.Indexed):
        if sym.base.name == "K":
            i, j = (int(k) for k in sym.indices)
            vals[sym] = vals[K[min(i, j), max(i, j)]]
    return vals


def cfg_abstract(config, tier, seed):
    kind, n = config["kind"], config["n"]
    km = _km()
    ctx = Ctx(config["name"])
    if kind == "nonrel":
        T = km.NonRelativisticKMatrix.formulate(n_channels=n, n_poles=1, parametrize=False)
        That = None
    else:
        T = km.RelativisticKMatrix.formulate(n_channels=n, n_poles=1, parametrize=False)
        That = km.RelativisticKMatrix.formulate(n_channels=n, n_poles=1, parametrize=False, return_t_hat=True)
    vals = _sym_K_values(ctx, T, n)
    rho_syms = [sp.Symbol(f"rho{i}") for i in range(n)]
    for r in rho_syms:
        z = ctx.real(str(r))
        ctx.assume(z > 0)
        ctx.mark_positive(z)
    tr = Translator(ctx, symbol_values=vals)
    for r in rho_syms:
        tr.symbols_seen[str(r)] = r
    for sym in vals:
        tr.symbols_seen[str(sym)] = sym
    TV = [[tr(T[i, j]) for j in range(n)] for i in range(n)]
    one, two_i = ctx.const(1), ctx.I() * 2
    S = [[(one if i == j else ctx.const(0)) + two_i * TV[i][j] for j in range(n)] for i in range(n)]
    obs = []
    for i in range(n):
        for j in range(n):
            acc = ctx.const(0)
            for k in range(n):
                acc = acc + S[k][i].conjugate() * S[k][j]
            obs += identity_obligations(f"unitarity[{i},{j}]", acc, one if i == j else ctx.const(0))
    for i in range(n):
        for j in range(i + 1, n):
            obs += identity_obligations(f"symmetry[{i},{j}]", TV[i][j], TV[j][i])
    # defining equation
    KV = [[vals[sp.IndexedBase("K", shape=(n, n))[i, j]] for j in range(n)] for i in range(n)]
    if kind == "nonrel":
        for i in range(n):
            for j in range(n):
                acc = ctx.const(0)
                for k in range(n):
                    acc = acc + TV[i][k] * ((one if k == j else ctx.const(0)) - ctx.I() * KV[k][j])
                obs += identity_obligations(f"T(1-iK)=K[{i},{j}]", acc, KV[i][j])
    else:
        ThV = [[tr(That[i, j]) for j in range(n)] for i in range(n)]
        rhoV = [ctx.var(str(r)) for r in rho_syms]
        for i in range(n):
            for j in range(n):
                acc = ctx.const(0)
                for k in range(n):
                    acc = acc + ThV[i][k] * ((one if k == j else ctx.const(0)) - ctx.I() * rhoV[k] * KV[k][j])
                obs += identity_obligations(f"That(1-i rho K)=K[{i},{j}]", acc, KV[i][j])
                # T = sqrt(rho)^* That sqrt(rho)
                obs += identity_obligations(
                    f"T=sqrt(rho)That sqrt(rho)[{i},{j}]", TV[i][j] * TV[i][j], rhoV[i] * rhoV[j] * ThV[i][j] * ThV[i][j]
                )

    def replay(name, asg):
        subs = subs_from_assignment(tr, asg)
        for sym, v in vals.items():
            i, j = (int(k) for k in sym.indices)
            subs[sym] = sp.Rational(*asg[f"K[{min(i, j)}, {max(i, j)}]"].as_integer_ratio())
        head = name.split("::")[0]
        Tn = sp.Matrix(n, n, lambda a, b: sp.N(T[a, b].xreplace(subs), 40))
        Sn = sp.eye(n) + 2 * sp.I * Tn
        if head.startswith("unitarity"):
            res = (Sn.H * Sn - sp.eye(n)).norm()
        elif head.startswith("symmetry"):
            res = (Tn - Tn.T).norm()
        else:
            Kn = sp.Matrix(n, n, lambda a, b: subs[sp.IndexedBase("K", shape=(n, n))[a, b]])
            if kind == "nonrel":
                res = (Tn * (sp.eye(n) - sp.I * Kn) - Kn).norm()
            else:
                Thn = sp.Matrix(n, n, lambda a, b: sp.N(That[a, b].xreplace(subs), 40))
                rho = sp.diag(*[subs[r] for r in rho_syms])
                if head.startswith("That"):
                    res = (Thn * (sp.eye(n) - sp.I * rho * Kn) - Kn).norm()
                else:
                    sq = sp.diag(*[sp.sqrt(subs[r]) for r in rho_syms])
                    res = (Tn - sq * Thn * sq).norm()
        res = sp.N(res, 20)
        return {"reproduced": bool(res.is_finite and res > 1e-12), "residual_norm": str(res)}

    return discharge(ctx, obs + side_obligations(ctx), config=config["name"], replay=replay, timeout_s=config.get("timeout", 60))


def _domain_relativistic(ctx, tr, n, n_poles, s, m_a, m_b, m):
    zs = tr(s).real_term_nodiv()
    for i in range(n):
        za, zb = tr(m_a[i]).real_term_nodiv(), tr(m_b[i]).real_term_nodiv()
        ctx.assume(zs > (za + zb) * (za + zb))
        for R in range(1, n_poles + 1):
            zm = tr(m[R]).real_term_nodiv()
            ctx.assume(zm > za + zb)
    ctx.assume(zs > 0)
    ctx.mark_positive(zs)


def cfg_param(config, tier, seed):
    kind, n, n_poles = config["kind"], config["n"], config["n_poles"]
    L, phsp_name = config.get("L", 0), config.get("phsp", "PhaseSpaceFactor")
    km = _km()
    ctx = Ctx(config["name"])
    s = sp.Symbol("s", nonnegative=True)
    m = sp.IndexedBase("m", nonnegative=True)
    G = sp.IndexedBase("Gamma", nonnegative=True)
    g = sp.IndexedBase("gamma", nonnegative=True)
    m_a = sp.IndexedBase("m_a", nonnegative=True)
    m_b = sp.IndexedBase("m_b", nonnegative=True)
    R = sp.Symbol("R", integer=True, positive=True)
    d = sp.Symbol("d", positive=True)
    tr = Translator(ctx, branch_by_solver=True, name_classes=("BreakupMomentumSquared",))
    if kind == "nonrel":
        cls = km.NonRelativisticKMatrix

        def Kpar(i, j):
            return cls.parametrization(
                i=i, j=j, s=s, pole_position=m, pole_width=G, residue_constant=g, n_poles=n_poles, pole_id=R
            )

        full = cls.formulate(n_channels=n, n_poles=n_poles)
        abstract = cls.formulate(n_channels=n, n_poles=n_poles, parametrize=False)
        # domain: away from poles handled by denominators; nothing else
        tr(s)
    else:
        cls = km.RelativisticKMatrix
        phsp = _phsp(phsp_name)

        def Kpar(i, j):
            return cls.parametrization(
                i=i,
                j=j,
                s=s,
                pole_position=m,
                pole_width=G,
                m_a=m_a,
                m_b=m_b,
                residue_constant=g,
                n_poles=n_poles,
                pole_id=R,
                angular_momentum=L,
                meson_radius=d,
                phsp_factor=phsp,
            )

        full = cls.formulate(
            n_channels=n, n_poles=n_poles, phsp_factor=phsp, angular_momentum=L, meson_radius=d
        )
        abstract = cls.formulate(n_channels=n, n_poles=n_poles, parametrize=False)
        _domain_relativistic(ctx, tr, n, n_poles, s, m_a, m_b, m)
    obs = []
    KV = {}
    Kexpr = {}
    for i in range(n):
        for j in range(n):
            Kexpr[i, j] = Kpar(i, j)
            KV[i, j] = tr(Kexpr[i, j])
            if not KV[i, j].is_real():
                obs.append(Obligation(f"K[{i},{j}] real", z3.And(*[t == 0 for _, t in KV[i, j].imag_part().eq_components(0)])))
            else:
                obs.append(Obligation(f"K[{i},{j}] real", z3.BoolVal(True)))
    for i in range(n):
        for j in range(i + 1, n):
            obs += identity_obligations(f"K symmetric[{i},{j}]", KV[i, j], KV[j, i])
    # composition, by congruence abstraction (DESIGN.md E4-style lemma chain):
    #  (a) every unevaluated Sum node sigma_k of the library's result equals the parametrisation of one K entry,
    #  (b) every phase-space node equals phsp(s, m_a[i], m_b[i]) and is positive,
    #  (c) with those nodes replaced by opaque variables U[i,j], r_i the library's result equals the abstract T.
    from vf.core import implied

    sums = sorted(full.atoms(sp.Sum), key=str)
    sym_vals_full, flat = {}, False
    node_var = []
    for k, sigma in enumerate(sums):
        vs = tr(sigma)
        node_var.append(ctx.var(f"U{k}") if vs.is_real() else ctx.cvar(f"U{k}"))
        sym_vals_full[sigma] = node_var[k]
    U = {}
    for (i, j), kv in KV.items():
        k = next((k for k, sg in enumerate(sums) if sg == Kpar(i, j)), None)
        if k is None:
            for k2, sg in enumerate(sums):
                if all(implied(ctx, t == 0, 5000) for _, t in tr(sg).eq_components(kv)):
                    k = k2
                    break
        if k is None:
            flat = True
            break
        obs += identity_obligations(f"composition(a) K[{i},{j}]==node{k}", tr(sums[k]), kv)
        U[i, j] = node_var[k]
    if flat:
        sym_vals_full = {}
    vals = {}
    for sym in abstract.atoms(sp.Indexed):
        if sym.base.name == "K":
            i, j = (int(k) for k in sym.indices)
            vals[sym] = KV[i, j] if flat else U[i, j]
    if kind == "rel":
        rho_nodes = sorted(full.atoms(phsp), key=str) if isinstance(phsp, type) else []
        for i in range(n):
            rho_expr = phsp(s, m_a[i], m_b[i])
            rv = tr(rho_expr)
            obs.append(Obligation(f"composition(b) rho{i}>0", rv.gt(0), "inequality"))
            if flat or rho_expr not in rho_nodes:
                vals[sp.Symbol(f"rho{i}")] = rv
            else:
                z = ctx.real(f"r{i}")
                ctx.assume(z > 0)
                ctx.mark_positive(z)
                vals[sp.Symbol(f"rho{i}")] = ctx.var(f"r{i}")
                sym_vals_full[rho_expr] = ctx.var(f"r{i}")
        for node in rho_nodes:
            if node not in sym_vals_full and not flat:
                sym_vals_full[node] = tr(node)
    tr_full = Translator(ctx, symbol_values={**tr.symbol_values, **sym_vals_full}, branch_by_solver=True, name_classes=("BreakupMomentumSquared",)) if not flat else tr
    tr_abs = Translator(ctx, symbol_values=vals, branch_by_solver=True)
    for i in range(n):
        for j in range(n):
            lhs = tr_full(full[i, j] if not flat else full[i, j].doit())
            rhs = tr_abs(abstract[i, j])
            obs += identity_obligations(f"composition(c)[{i},{j}]" + ("[flat]" if flat else ""), lhs, rhs)

    def replay(name, asg):
        subs = subs_from_assignment(tr, asg)
        head = name.split("::")[0]
        i, j = (int(k) for k in head[head.index("[") + 1 : head.index("]")].split(","))
        if head.startswith("K symmetric"):
            return differs(Kexpr[i, j].doit(), Kexpr[j, i].doit(), subs)
        if head.startswith("composition(a)") or head.startswith("composition(b)"):
            return {"reproduced": True, "note": "library result contains a node that is not the documented parametrisation", "node": head}
        if head.startswith("composition"):
            rep = {sym: Kexpr[tuple(int(k) for k in sym.indices)].doit() for sym in abstract.atoms(sp.Indexed) if sym.base.name == "K"}
            if kind == "rel":
                rep.update({sp.Symbol(f"rho{k}"): phsp(s, m_a[k], m_b[k]).doit() for k in range(n)})
            return differs(full[i, j].doit(), abstract[i, j].xreplace(rep), subs)
        if head.endswith("real"):
            val = sp.N(Kexpr[i, j].doit().xreplace(subs), 30)
            return {"reproduced": bool(abs(sp.im(val)) > 1e-15), "value": str(val)}
        return {"reproduced": False}

    res = discharge(ctx, obs + side_obligations(ctx), config=config["name"], replay=replay, timeout_s=config.get("timeout", 60))
    return res + _witness_search_symmetry(config, res, Kexpr)



def _witness_search_symmetry(config, res, Kexpr):
    """Only after the solver left a `K symmetric` obligation undecided: evaluate the library's K_ij and K_ji at a few
    rational points above all thresholds. A difference is a counterexample on the real code (VIOLATION); agreement
    proves nothing and the obligation stays INCONCLUSIVE."""
    import random

    out, done = [], set()
    for r in res:
        head = r.name.split("::")[0]
        if r.status != "unknown" or not head.startswith("K symmetric[") or head in done:
            continue
        done.add(head)
        i, j = (int(k) for k in head[head.index("[") + 1 : head.index("]")].split(","))
        lhs, rhs = Kexpr[i, j].doit(), Kexpr[j, i].doit()
        rng = random.Random(9)
        for _ in range(6):
            subs = {}
            for q, sym in enumerate(sorted(lhs.free_symbols | rhs.free_symbols, key=str)):
                subs[sym] = sp.Rational(rng.randint(1, 40), rng.choice([7, 11, 13])) if str(sym) != "s" else sp.Rational(rng.randint(400, 900), 7)
            try:
                rep = differs(lhs, rhs, subs)
            except Exception:  # noqa: BLE001
                continue
            if rep.get("reproduced"):
                rep["point"] = {str(k): str(v) for k, v in subs.items()}
                out.append(Result(name=f"{head}: concrete witness after solver unknown", kind="ground", status="fail", config=config["name"], replay=rep,
                                  selector=f"{config['name']}::{head}: concrete witness after solver unknown"))  # fmt: skip
                break
    return out


def worker(config, tier, seed):
    try:
        if config["level"] == "abstract":
            return cfg_abstract(config, tier, seed)
        return cfg_param(config, tier, seed)
    except Unsupported as exc:
        from vf.solve import Result

        return [Result(name="translate", kind="identity", status="unknown", config=config["name"], detail=f"Unsupported: {exc}")]


def configs(tier):
    out = []
    ns = (1, 2) if tier == "quick" else (1, 2, 3)
    for kind in ("nonrel", "rel"):
        for n in ns:
            out.append({"name": f"abstract:{kind}:n={n}", "level": "abstract", "kind": kind, "n": n, "timeout": 60 if n < 3 else 600})
    if tier == "quick":
        grid = [("nonrel", 1, 1), ("nonrel", 2, 2), ("nonrel", 2, 4)]
        rel = [(1, 1, 0, "PhaseSpaceFactor"), (2, 2, 1, "PhaseSpaceFactor"), (2, 1, 2, "PhaseSpaceFactorAbs"), (1, 2, 0, "PhaseSpaceFactorComplex")]
    else:
        grid = [("nonrel", n, p) for n in (1, 2, 3) for p in (1, 2, 3, 4)]
        rel = [
            (n, p, L, ph)
            for n in (1, 2, 3)
            for p in (1, 2, 3, 4)
            for L in range(4)
            for ph in ("PhaseSpaceFactor", "PhaseSpaceFactorAbs", "PhaseSpaceFactorComplex")
            if ((n, p) in ((1, 1), (2, 2), (3, 1), (1, 4), (2, 3)) and L <= 2) or ((n, p) in ((1, 1), (2, 2)) and L == 3) or (L == 0 and ph == "PhaseSpaceFactor" and n * p <= 6)
        ]
    for kind, n, p in grid:
        out.append({"name": f"param:{kind}:n={n}:poles={p}", "level": "param", "kind": kind, "n": n, "n_poles": p})
    for n, p, L, ph in rel:
        out.append({"name": f"param:rel:n={n}:poles={p}:L={L}:{ph}", "level": "param", "kind": "rel", "n": n, "n_poles": p, "L": L, "phsp": ph, "config_timeout": 900})
    return out


def main():
    km = _km()
    import ampform.dynamics as dyn
    from ampform.dynamics import form_factor as ff
    from ampform.dynamics import phasespace as phs

    chk = Check("C09", __doc__)
    chk.run(worker, configs(chk.tier))
    chk.finish(
        functions=[
            km.NonRelativisticKMatrix._create_matrices,
            km.NonRelativisticKMatrix.formulate,
            km.NonRelativisticKMatrix.parametrization,
            km.RelativisticKMatrix._create_matrices,
            km.RelativisticKMatrix.formulate,
            km.RelativisticKMatrix.parametrization,
            km._create_rho_matrix,
            dyn.EnergyDependentWidth.evaluate,
            ff.FormFactor.evaluate,
            ff.BlattWeisskopfSquared.evaluate,
            phs.BreakupMomentumSquared.evaluate,
            phs.PhaseSpaceFactor.evaluate,
            phs.PhaseSpaceFactorAbs.evaluate,
            phs.PhaseSpaceFactorComplex.evaluate,
        ],
        bounds={
            "n_channels": "1..2 quick, 1..3 thorough",
            "n_poles": "1..4",
            "L": "0..2; L = 3 for (n_channels, n_poles) in {(1,1), (2,2)} in the thorough tier (beyond that the sign lemmas / radicand side obligations are not decided within the limits)",
            "phase-space variants": "PhaseSpaceFactor, ...Abs, ...Complex (real above threshold)",
        },
        assumptions=[
            "K real symmetric means: K[j,i] identified with K[i,j], all entries real; rho_i > 0",
            "domain (relativistic parametrisation): s > (m_a[i]+m_b[i])^2 for all channels, every pole mass > every threshold, "
            "m, Gamma, gamma, m_a, m_b >= 0 as declared by the library's own symbol assumptions, denominators non-zero (s != m_R^2)",
            "unitarity of the parametrised T is obtained by instantiating the level-1 statement (all real symmetric K) "
            "with the level-2 K through the level-3 equality",
        ],
        outside=["poles below a threshold (width becomes complex)", "n_channels > 3, n_poles > 4, L > 3", "floating point"],
    )


if __name__ == "__main__":
    main()
