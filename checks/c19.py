"""C19  Dalitz-plot-decomposition angles satisfy their geometry and identities.

Encoded from /repo (E1+E4): formulate_scattering_angle, formulate_theta_hat_angle,
formulate_zeta_angle (every index combination they accept), Kallen.   DESIGN.md section 4, C19.

Every returned angle is 0 or +-acos(N / (sqrt(A) sqrt(B))).  Variables: m_0..m_3 > 0,
sigma1, sigma2 (sigma3 eliminated); domain: interior of the physical Dalitz region.
"""

from __future__ import annotations

import itertools

import sympy as sp
import z3

from vf.certify import sign_via_common_factor
from vf.core import B1, ZERO, Ctx, Unsupported, V
from vf.harness import Check
from vf.replay import rat
from vf.solve import Obligation, Result, discharge, identity_obligations, side_obligations
from vf.sym2smt import Translator

m0, m1, m2, m3 = sp.symbols("m_(:4)", nonnegative=True)
m23, m13, m12 = sp.symbols("m_23 m_13 m_12", nonnegative=True)
S1, S2 = sp.symbols("sigma1 sigma2", positive=True)
MASS = {0: m0, 1: m1, 2: m2, 3: m3}
S3 = m0**2 + m1**2 + m2**2 + m3**2 - S1 - S2
SIG = {1: S1, 2: S2, 3: S3}


_Z = {"zero": None}  # id of a final-state particle whose mass is the literal 0 (inserted BEFORE unfolding)


def _massless(expr):
    z = _Z["zero"]
    return expr if z is None else sp.sympify(expr).xreplace({MASS[z]: sp.Integer(0)})


def to_sigma(expr):
    """library expression in (m_23, m_13, m_12) -> polynomial/rational expression in (sigma1, sigma2); sigma3 eliminated"""
    out = _massless(sp.sympify(expr)).doit().subs({m23: sp.sqrt(S1), m13: sp.sqrt(S2), m12: sp.sqrt(_massless(S3))})
    if out.has(m23, m13, m12) or any(p.exp.is_Rational and p.exp.q == 2 and p.base.has(S1, S2) and p.base in (S1, S2, S3) for p in out.atoms(sp.Pow)):
        raise Unsupported("odd power of a sub-system mass")
    return out



def _ang():
    from ampform.kinematics import angles

    return angles


def lam(x, y, z):
    return x**2 + y**2 + z**2 - 2 * x * y - 2 * y * z - 2 * z * x


def split(expr):
    """angle expression -> (sign, cos expression)"""
    if expr == 0:
        return 0, sp.Integer(1)
    if isinstance(expr, sp.acos):
        return 1, expr.args[0]
    if isinstance(expr, sp.Mul) and len(expr.args) == 2 and expr.args[0] == -1 and isinstance(expr.args[1], sp.acos):
        return -1, expr.args[1].args[0]
    raise Unsupported(f"angle expression shape: {expr}")


def setup(name):
    ctx = Ctx(name)
    z = {i: (ctx.real(f"m_{i}") if i != _Z["zero"] else z3.RealVal(0)) for i in range(4)}
    for i, v in z.items():
        if i != _Z["zero"]:
            ctx.assume(v > 0)
            ctx.mark_positive(v)
    s1, s2 = ctx.real("sigma1"), ctx.real("sigma2")
    s3 = z[0] * z[0] + z[1] * z[1] + z[2] * z[2] + z[3] * z[3] - s1 - s2
    tr = Translator(ctx, use_assumptions=False)
    for s_ in (S1, S2, m0, m1, m2, m3):
        tr.symbols_seen[str(s_)] = s_
    from ampform.kinematics.phasespace import Kibble

    kib_expr = sp.expand(to_sigma(Kibble(m23**2, m13**2, m12**2, m0, m1, m2, m3)))
    ctx.assume(tr(kib_expr).lt(0), "interior: Kibble < 0")
    ctx.assume(
        z3.And(
            z[0] > z[1] + z[2] + z[3],
            s1 > (z[2] + z[3]) ** 2, s1 < (z[0] - z[1]) ** 2,
            s2 > (z[1] + z[3]) ** 2, s2 < (z[0] - z[2]) ** 2,
            s3 > (z[1] + z[2]) ** 2, s3 < (z[0] - z[3]) ** 2,
        )
    )  # fmt: skip
    return ctx, tr, kib_expr


def numer_den2(c):
    """cos expression -> (N, D^2) with the Kallen radicals squared away (sympy, in sigma1/sigma2)."""
    num, den = c.as_numer_denom()
    return sp.expand(to_sigma(num)), sp.expand(to_sigma(den**2))


def numeric_point(asg):
    return {MASS[i]: (rat(asg[f"m_{i}"]) if i != _Z["zero"] else sp.Integer(0)) for i in range(4)} | {
        S1: rat(asg["sigma1"]),
        S2: rat(asg["sigma2"]),
    }


def lib_angle_numeric(expr, pt):
    full = {m23: sp.sqrt(pt[S1]), m13: sp.sqrt(pt[S2]), m12: sp.sqrt(S3.xreplace(pt)), **{MASS[i]: pt[MASS[i]] for i in range(4)}}
    return sp.N(_massless(expr).doit().xreplace(full), 30)


# --------------------------------------------------------------------------- references (covariant, no boosts)
def ref_cos_theta_hat(i, j):
    """cos of the angle between p_i and p_j in the parent rest frame: (N, D^2)."""
    k = ({1, 2, 3} - {i, j}).pop()
    q = {a: MASS[a] ** 2 for a in range(4)}
    Ei2m0 = q[0] + q[i] - SIG[i]  # 2 m0 E_i
    Ej2m0 = q[0] + q[j] - SIG[j]
    dot_mink = (SIG[k] - q[i] - q[j]) / 2  # p_i.p_j (Minkowski)
    N = Ei2m0 * Ej2m0 - 4 * q[0] * dot_mink  # 4 m0^2 (E_i E_j - p_i.p_j) = 4 m0^2 (3-vector dot)
    D2 = lam(q[0], q[i], SIG[i]) * lam(q[0], q[j], SIG[j])  # (2 m0 |p_i|)^2 (2 m0 |p_j|)^2
    return sp.expand(_massless(N)), sp.expand(_massless(D2))


def ref_cos_theta(i, j):
    """helicity angle of particle i in the (ij) rest frame: cos = - p_i.p_k / (|p_i||p_k|) there."""
    k = ({1, 2, 3} - {i, j}).pop()
    q = {a: MASS[a] ** 2 for a in range(4)}
    sij = SIG[k]
    piP = (sij + q[i] - q[j]) / 2
    pkP = (q[0] - sij - q[k]) / 2
    pipk = (SIG[j] - q[i] - q[k]) / 2
    dot3_times_sij = piP * pkP - pipk * sij  # s_ij * (p_i.p_k)_3vec in the (ij) frame
    N = -4 * dot3_times_sij
    D2 = lam(sij, q[i], q[j]) * lam(q[0], sij, q[k])  # (2 sqrt(s_ij)|p_i|)^2 (2 sqrt(s_ij)|p_k|)^2
    return sp.expand(_massless(N)), sp.expand(_massless(D2))


# --------------------------------------------------------------------------- obligations
def range_obligations(ctx, tr, kib, c, label, timeout=15):
    """N^2 <= D^2, radicands > 0 for one cos expression (E4 hints if the raw query is inconclusive)."""
    N, D2 = numer_den2(c)
    obs, info = sign_via_common_factor(ctx, tr, D2 - N**2, kib, f"{label}: N^2<=A*B", want=">=0", K_sign="<0")
    if obs is None:
        obs = [Obligation(f"{label}: N^2<=A*B [raw: {info}]", (tr(D2) - tr(N) * tr(N)).ge(0), "inequality")]
    num, den = c.as_numer_denom()
    for k, rad in enumerate(sorted({a for a in den.atoms(sp.Pow) if a.exp == sp.Rational(1, 2)}, key=str)):
        obs.append(Obligation(f"{label}: radicand{k}>0", tr(sp.expand(to_sigma(rad.base))).gt(0), "inequality"))
    return obs


def cfg_ranges(config, tier, seed):
    ang = _ang()
    kind, idx = config["fn"], tuple(config["idx"])
    fn = {"zeta": ang.formulate_zeta_angle, "theta_hat": ang.formulate_theta_hat_angle, "theta": ang.formulate_scattering_angle}[kind]
    try:
        _, expr = fn(*idx)
    except (NotImplementedError, ValueError) as exc:
        return [Result(name=f"{kind}{idx} raises {type(exc).__name__}", kind="ground", status="ok", config=config["name"], detail="recorded: index combination rejected by the library")]
    sg, c = split(expr)
    if sg == 0:
        return [Result(name=f"{kind}{idx} is identically 0", kind="ground", status="ok", config=config["name"])]
    ctx, tr, kib = setup(config["name"])
    obs = range_obligations(ctx, tr, kib, c, f"{kind}{idx}")

    def replay(name, asg):
        pt = numeric_point(asg)
        val = lib_angle_numeric(sp.acos(c), pt)
        cval = lib_angle_numeric(c, pt)
        bad = (not cval.is_real) or abs(cval) > 1 + sp.Float("1e-20") or not val.is_real
        return {"reproduced": bool(bad), "cos": str(cval), "acos": str(val)}

    return discharge(ctx, obs, config=config["name"], replay=replay, timeout_s=60)


def _cos_equal_obligations(ctx, tr, label, lib, ref, sign=1):
    """cos_lib == sign * cos_ref, root-free:  N_l^2 D_r^2 == N_r^2 D_l^2  and  sign*N_l*N_r >= 0."""
    (Nl, Dl2), (Nr, Dr2) = lib, ref
    obs = identity_obligations(f"{label}: N_l^2*D_r^2==N_r^2*D_l^2", tr(sp.expand(Nl**2 * Dr2)), tr(sp.expand(Nr**2 * Dl2)))
    obs.append(Obligation(f"{label}: numerators agree in sign", (tr(Nl) * tr(Nr) * sign).ge(0), "inequality"))
    return obs


def cfg_geometry(config, tier, seed):
    ang = _ang()
    kind, (i, j) = config["fn"], config["idx"]
    ctx, tr, kib = setup(config["name"])
    if kind == "theta_hat":
        _, expr = ang.formulate_theta_hat_angle(i, j)
        ref = ref_cos_theta_hat(i, j)
        _, expr_sw = ang.formulate_theta_hat_angle(j, i)
    else:
        _, expr = ang.formulate_scattering_angle(i, j)
        ref = ref_cos_theta(i, j)
        _, expr_sw = ang.formulate_scattering_angle(j, i)
    sg, c = split(expr)
    sg2, c2 = split(expr_sw)
    obs = _cos_equal_obligations(ctx, tr, f"{kind}{(i, j)} == geometric angle", numer_den2(c), ref)
    if kind == "theta_hat":
        # antisymmetric: same cos, opposite sign
        obs += _cos_equal_obligations(ctx, tr, f"theta_hat{(i, j)} vs {(j, i)}: equal cos", numer_den2(c), numer_den2(c2))
        ok = sg == -sg2 and sg != 0
        extra = [Result(name=f"theta_hat{(i, j)} = -theta_hat{(j, i)}: opposite acos signs", kind="ground", status="ok" if ok else "fail",
                        config=config["name"], replay={"reproduced": not ok, "signs": [sg, sg2]})]  # fmt: skip
        # orientation in the decay plane: the three angles 1->2, 2->3, 3->1 are counted in one sense (they close to 2 pi),
        # so the cyclic pairs carry +acos and the anti-cyclic ones -acos (Eq. (A3) of the DPD paper the docstring cites)
        want_sg = 1 if (i, j) in ((1, 2), (2, 3), (3, 1)) else -1
        extra.append(Result(name=f"theta_hat{(i, j)}: orientation (cyclic pairs positive, so that theta_hat_1(2)+theta_hat_2(3)+theta_hat_3(1) = 2 pi)", kind="ground",
                            status="ok" if sg == want_sg else "fail", config=config["name"], replay={"reproduced": sg != want_sg, "sign of acos": sg, "expected": want_sg}))  # fmt: skip
    else:
        # theta_ij + theta_ji = pi: both +acos and cos_ji = -cos_ij
        obs += _cos_equal_obligations(ctx, tr, f"theta{(i, j)}+theta{(j, i)}=pi: cos_ji == -cos_ij", numer_den2(c2), numer_den2(c), sign=-1)
        ok = sg == 1 and sg2 == 1
        extra = [Result(name=f"theta{(i, j)}, theta{(j, i)} both in [0,pi] (+acos)", kind="ground", status="ok" if ok else "fail",
                        config=config["name"], replay={"reproduced": not ok, "signs": [sg, sg2]})]  # fmt: skip

    def replay(name, asg):
        pt = numeric_point(asg)
        lv = lib_angle_numeric(c, pt)
        Nr, Dr2 = ref
        rv = sp.N((Nr / sp.sqrt(Dr2)).xreplace(pt), 30)
        sw = lib_angle_numeric(c2, pt)
        if "vs" in name or "=pi" in name:
            want = lv if kind == "theta_hat" else -lv
            return {"reproduced": bool(abs(sw - want) > 1e-12), "cos_ij": str(lv), "cos_ji": str(sw)}
        return {"reproduced": bool(abs(lv - rv) > 1e-12), "cos_library": str(lv), "cos_from_four_momenta": str(rv)}

    return extra + discharge(ctx, obs, config=config["name"], replay=replay, timeout_s=60)


def cfg_zeta_identities(config, tier, seed):
    ang = _ang()
    i, k = config["idx"]
    out = []
    _, e0 = ang.formulate_zeta_angle(i, k, 0)
    _, ei = ang.formulate_zeta_angle(i, k, i)
    _, ekk = ang.formulate_zeta_angle(i, k, k)
    ok0 = sp.simplify(e0 - ei) == 0 if e0 != ei else True
    ctx, tr, kib = setup(config["name"])
    obs = []
    (s0, c0), (s1_, c1) = split(e0), split(ei)
    if s0 != 0 or s1_ != 0:
        obs += _cos_equal_obligations(ctx, tr, f"zeta^{i}_{k}(0) == zeta^{i}_{k}({i})", numer_den2(c0), numer_den2(c1))
    out.append(Result(name=f"zeta^{i}_{k}(0), zeta^{i}_{k}({i}): equal acos sign", kind="ground", status="ok" if s0 == s1_ else "fail",
                      config=config["name"], replay={"reproduced": s0 != s1_, "signs": [s0, s1_]}))  # fmt: skip
    out.append(Result(name=f"zeta^{i}_{k}({k}) == 0", kind="ground", status="ok" if ekk == 0 else "fail", config=config["name"],
                      replay={"reproduced": ekk != 0, "expr": str(ekk)[:100]}))  # fmt: skip

    def replay(name, asg):
        pt = numeric_point(asg)
        a, b = lib_angle_numeric(e0, pt), lib_angle_numeric(ei, pt)
        return {"reproduced": bool(abs(a - b) > 1e-12), "zeta(0)": str(a), "zeta(i)": str(b)}

    if obs:
        out += discharge(ctx, obs, config=config["name"], replay=replay, timeout_s=60)
    return out


def cfg_sum_rule(config, tier, seed):
    """zeta^i_{j(k)} = zeta^i_{j(i)} + zeta^i_{i(k)} (mod 2 pi), root-free.

    Each Kallen radical is a generator r with r^2 = lambda (exact radical-basis arithmetic); the
    products of sines s_x s_y = sqrt((1-c_x^2)(1-c_y^2)) are supplied by E4 hints
    (1-c_x^2 = b_x G / (A_x B_x) with G the Kibble factor, sqrt(b_x b_y) a polynomial) and justified
    by lemmas.  Then  cos a = cos b cos c - sin b sin c  and  sin a * |sin a| = ...  are exact identities."""
    ang = _ang()
    i, j, k = config["idx"]
    ctx, tr, kib = setup(config["name"])
    triples = {"a": (i, j, k), "b": (i, j, i), "c": (i, i, k)}
    exprs = {x: ang.formulate_zeta_angle(*t)[1] for x, t in triples.items()}
    gens: dict = {}
    obs = []

    def gen(poly):
        key = sp.expand(poly)
        if key not in gens:
            vz = tr(key)
            gens[key] = ctx.generator(f"r{len(gens)}", vz.real_term_nodiv())
            obs.append(Obligation(f"radicand r{len(gens) - 1} > 0", vz.gt(0), "inequality"))
        return gens[key]

    data = {}
    for x, e in exprs.items():
        sg, cexpr = split(e)
        if sg == 0:
            raise Unsupported("zero angle in a sum rule")
        num, den = cexpr.as_numer_denom()
        rads = [a.base for a in den.atoms(sp.Pow) if a.exp == sp.Rational(1, 2)]
        if len(rads) != 2 or sp.expand(to_sigma(den**2) - to_sigma(rads[0] * rads[1])) != 0:
            raise Unsupported(f"denominator shape {den}")
        N = sp.expand(to_sigma(num))
        A, B = (sp.expand(to_sigma(r)) for r in rads)
        gA, gB = gen(A), gen(B)
        cos = tr(N) * gA.inverse() * gB.inverse()
        data[x] = dict(sign=sg, N=N, A=A, B=B, cos=cos, inv_den=gA.inverse() * gB.inverse(), P=sp.expand(A * B - N**2))
    # E4 hints: common factor G with the Kibble polynomial
    cK, fK = sp.factor_list(kib)
    G = max((f for f, e in fK if e % 2 == 1), key=lambda f: len(f.free_symbols))
    aK = sp.cancel(kib / G)
    VG = tr(G)
    from vf.core import implied

    obs += identity_obligations("[lemma] Kibble == a*G", tr(kib), tr(aK) * VG)
    if implied(ctx, VG.lt(0), 20000):
        g_sign = -1
        obs.append(Obligation("[lemma] G < 0 on the domain", VG.lt(0), "lemma"))
    elif implied(ctx, VG.gt(0), 20000):
        g_sign = 1
        obs.append(Obligation("[lemma] G > 0 on the domain", VG.gt(0), "lemma"))
    else:
        raise Unsupported("sign of the Kibble factor G undecided")
    for x, d in data.items():
        b = sp.cancel(d["P"] / G)
        if not b.is_polynomial():
            raise Unsupported("1 - cos^2 does not contain the Kibble factor")
        d["b"] = b
        obs += identity_obligations(f"[lemma] A*B - N^2 == b*G ({x})", tr(d["P"]), tr(b) * VG)

    def sine_product(x, y):
        h = sp.sqrt(sp.factor(data[x]["b"] * data[y]["b"]))
        h = sp.simplify(h)
        if not h.is_polynomial() or h.has(sp.Abs):
            h = sp.expand(sp.sqrt(sp.factor(data[x]["b"] * data[y]["b"]), evaluate=True).subs({sp.Abs(mm): mm for mm in MASS.values()}))
        if not sp.sympify(h).is_polynomial():
            raise Unsupported(f"sqrt(b_x b_y) is not a polynomial: {h}")
        Vh = tr(h)
        obs.extend(identity_obligations(f"[lemma] h^2 == b_{x} b_{y}", Vh * Vh, tr(data[x]["b"]) * tr(data[y]["b"])))
        obs.append(Obligation(f"[lemma] h_{x}{y} >= 0", Vh.ge(0), "lemma"))
        ss = Vh * (VG * g_sign) * data[x]["inv_den"] * data[y]["inv_den"]  # h * |G| / (dens): the non-negative root
        one = ctx.const(1)
        obs.extend(
            identity_obligations(
                f"[lemma] (1-c_{x}^2)(1-c_{y}^2) == SS_{x}{y}^2",
                (one - data[x]["cos"] * data[x]["cos"]) * (one - data[y]["cos"] * data[y]["cos"]),
                ss * ss,
            )
        )
        return ss

    ss_bc, ss_ab, ss_ac = sine_product("b", "c"), sine_product("a", "b"), sine_product("a", "c")
    sa, sb, sc = (data[x]["sign"] for x in "abc")
    ca, cb, cc = (data[x]["cos"] for x in "abc")
    one = ctx.const(1)
    obs += identity_obligations("cos(a) == cos(b)cos(c) - sin(b)sin(c)", ca, cb * cc - ss_bc * (sb * sc))
    obs += identity_obligations(
        "sin(a)|sin(a)| == sin(b)cos(c)|sin(a)| + cos(b)sin(c)|sin(a)|", (one - ca * ca) * sa, ss_ab * cc * sb + cb * ss_ac * sc
    )

    def replay(name, asg):
        pt = numeric_point(asg)
        a, b, c_ = (lib_angle_numeric(exprs[x], pt) for x in "abc")
        d = sp.N(sp.Abs(sp.exp(sp.I * a) - sp.exp(sp.I * (b + c_))), 20)
        return {"reproduced": bool(d > 1e-12), "lhs": str(a), "rhs": str(b + c_)}

    return discharge(ctx, obs, config=config["name"], replay=replay, timeout_s=config.get("timeout", 60))


def cfg_massless_zeta(config, tier, seed):
    """the alignment angle of a massless particle vanishes: cos zeta^i = 1 (helicity is frame independent)"""
    ang = _ang()
    _, e = ang.formulate_zeta_angle(*config["idx"])
    sg, cexpr = split(e)
    if sg == 0:
        return [Result(name="identically 0", kind="ground", status="ok", config=config["name"])]
    ctx, tr, kib = setup(config["name"])
    N, D2 = numer_den2(cexpr)
    obs = identity_obligations("N^2 == A*B (cos^2 = 1)", tr(sp.expand(N**2)), tr(D2))
    obs.append(Obligation("N > 0 (cos = +1)", tr(N).gt(0), "inequality"))

    def replay(name, asg):
        pt = numeric_point(asg)
        val = lib_angle_numeric(e, pt)
        return {"reproduced": bool(abs(val) > 1e-12), "zeta": str(val)}

    return discharge(ctx, obs, config=config["name"], replay=replay, timeout_s=60)


def worker(config, tier, seed):
    _Z["zero"] = config.get("massless")
    try:
        return {"range": cfg_ranges, "geometry": cfg_geometry, "zeta_id": cfg_zeta_identities, "sum": cfg_sum_rule, "massless_zeta": cfg_massless_zeta}[config["kind"]](config, tier, seed)
    except Unsupported as exc:
        return [Result(name="translate", kind="identity", status="unknown", config=config["name"], detail=f"Unsupported: {exc}")]


def configs(tier):
    out = []
    triples = list(itertools.product(range(4), repeat=3))
    if tier == "quick":
        triples = [t for t in triples if t[0] in (0, 1) or t in ((2, 3, 1), (3, 1, 2), (2, 1, 3), (3, 2, 1), (2, 2, 1), (3, 3, 2))]
    for t in triples:
        out.append({"name": f"range:zeta{t}", "kind": "range", "fn": "zeta", "idx": t})
    for p in itertools.product((1, 2, 3), repeat=2):
        out.append({"name": f"range:theta_hat{p}", "kind": "range", "fn": "theta_hat", "idx": p})
        out.append({"name": f"range:theta{p}", "kind": "range", "fn": "theta", "idx": p})
    for p in itertools.permutations((1, 2, 3), 2):
        out.append({"name": f"geometry:theta_hat{p}", "kind": "geometry", "fn": "theta_hat", "idx": p})
        out.append({"name": f"geometry:theta{p}", "kind": "geometry", "fn": "theta", "idx": p})
    for i in (1, 2, 3):
        for k in (1, 2, 3):
            out.append({"name": f"zeta-identities:i={i},k={k}", "kind": "zeta_id", "idx": (i, k)})
    for t in itertools.permutations((1, 2, 3), 3):
        out.append({"name": f"sum-rule:zeta{t}", "kind": "sum", "idx": t})
    # one massless final-state particle, its literal 0 inserted before unfolding
    for z in (1, 2, 3):
        for p in itertools.permutations((1, 2, 3), 2):
            if tier == "thorough" or z in p:
                out.append({"name": f"massless{z}:geometry:theta_hat{p}", "kind": "geometry", "fn": "theta_hat", "idx": p, "massless": z})
                out.append({"name": f"massless{z}:geometry:theta{p}", "kind": "geometry", "fn": "theta", "idx": p, "massless": z})
        for t in itertools.permutations((1, 2, 3), 3):
            if t[0] != z and (tier == "thorough" or t[1] == z):
                out.append({"name": f"massless{z}:sum-rule:zeta{t}", "kind": "sum", "idx": t, "massless": z})
        for t in ((z, 1, 2), (z, 2, 3), (z, 3, 1), (z, 2, 1), (z, 3, 2), (z, 1, 3)):
            out.append({"name": f"massless{z}:zeta{t}==0", "kind": "massless_zeta", "idx": t, "massless": z})
    return out


def main():
    ang = _ang()
    from ampform.kinematics.phasespace import Kallen

    chk = Check("C19", __doc__)
    chk.run(worker, configs(chk.tier))
    chk.finish(
        functions=[ang.formulate_scattering_angle, ang.formulate_theta_hat_angle, ang.formulate_zeta_angle, Kallen.evaluate],
        bounds={"index combinations": "zeta: {0..3}^3 (thorough; quick: rotated state 0,1 plus six others), theta_hat/theta: {1,2,3}^2"},
        assumptions=[
            "domain: interior of the physical region (Kibble < 0, each sigma_k strictly between its thresholds), all masses > 0",
            "geometric references are covariant: 3-vector products in a rest frame through a.b|rest(P) = (a.P)(b.P)/P^2 - a.b",
            "cos comparisons are root-free: N_l^2 D_r^2 == N_r^2 D_l^2 and N_l N_r >= 0 with D > 0 (radicands proved > 0)",
            "sum rule modulo 2*pi (cos and sin of both sides agree)",
            "E4: factorisation hints from sympy.factor_list are re-proved as solver lemmas",
        ],
        outside=["the boundary Kibble = 0; more than one massless particle; a massless parent", "floating point"],
    )


if __name__ == "__main__":
    main()
