"""C03  Parity partners carry exactly the parity sign of the flipped nodes.

Encoded from /repo (E1): the helicity and the canonical model of the same reaction (same
parity-conserving interaction settings): HelicityAmplitudeNameGenerator (partner mapping),
__generate_amplitude_prefactor, get_prefactor, plus everything of C02.   DESIGN.md section 4, C03.

Numeric formulation of the property: let every canonical LS-coefficient be a free complex
variable.  The helicity coefficient a chain needs, c_hel(t) = sum_LS kappa_can c_can prod CG,
is fixed by the Clebsch-Gordan expansion.  (A) all chains sharing one helicity coefficient symbol
need the same value up to their library prefactor; (B) with the helicity coefficients defined by
their representative chains the helicity intensity equals the canonical intensity for all LS
coefficients and all angles.
"""

from __future__ import annotations

import sympy as sp
import z3

from checks.c02 import REACTIONS, build, holds, is_coeff
from vf.core import Ctx, Unsupported
from vf.harness import Check
from vf.refmodel import F, chain_amplitude, clebsch_gordan, node_decay
from vf.replay import differs, subs_from_assignment
from vf.solve import Obligation, Result, discharge, identity_obligations
from vf.sym2smt import Translator

REACTIONS.update({
    "J/psi->Sigma~(1750) Sigma+ (Sigma~->K0 p~)": dict(initial_state=("J/psi(1S)", [-1, +1]), final_state=["K0", "Sigma+", "p~"],
                                                      allowed_intermediate_particles=["Sigma(1750)~-"], allowed_interaction_types=["strong"]),
    "J/psi->K*+ K- (K*->K+ pi0)": dict(initial_state=("J/psi(1S)", [-1, +1]), final_state=["K+", "pi0", "K-"],
                                       allowed_intermediate_particles=["K*(892)+"], allowed_interaction_types=["strong"]),
    "Lambda_c->Lambda(1520) pi (Lambda*->p K)": dict(initial_state="Lambda(c)+", final_state=["p", "K-", "pi+"],
                                                     allowed_intermediate_particles=["Lambda(1520)"]),
})  # fmt: skip


def state_key(t):
    return (
        tuple(sorted((i, e.originating_node_id, e.ending_node_id) for i, e in t.topology.edges.items())),
        tuple(sorted((i, s_.particle.name, F(s_.spin_projection)) for i, s_ in t.states.items())),
    )


def chain_info(ctx, tr, reaction, builder, model, canonical):
    """per transition: (coefficient product, kappa, cg product) with component == kappa*coeff*D-product*cg"""
    info = []
    for t in reaction.transitions:
        name = "A_{" + builder.naming.generate_amplitude_name(t) + "}"
        comp = model.components[name]
        coeff = sp.Mul(*sorted((s_ for s_ in comp.free_symbols if is_coeff(s_)), key=str))
        ref = chain_amplitude(t, canonical=canonical)
        Vc = tr(comp.doit())
        kappa = comp.as_coeff_Mul()[0]
        kappa = int(kappa) if kappa in (1, -1) else 1
        if not holds(ctx, Vc, tr(coeff * ref) * kappa):
            raise Unsupported(f"chain {name} is not prefactor*coefficient*reference (that is property C02)")
        cg = sp.Integer(1)
        if canonical:
            for node_id in sorted(t.topology.nodes):
                parent, a, b = node_decay(t.topology, node_id)
                sa, sb, sp_ = t.states[a], t.states[b], t.states[parent]
                inter = t.interactions[node_id]
                d = F(sa.spin_projection) - F(sb.spin_projection)
                cg *= clebsch_gordan(inter.l_magnitude, 0, inter.s_magnitude, d, sp_.particle.spin, d)
                cg *= clebsch_gordan(sa.particle.spin, sa.spin_projection, sb.particle.spin, -F(sb.spin_projection), inter.s_magnitude, d)
        info.append(dict(t=t, name=name, coeff=coeff, kappa=kappa, cg=cg))
    return info


def eta(t, node_id):
    parent, a, b = node_decay(t.topology, node_id)
    P, Pa, Pb = (t.states[i].particle.parity for i in (parent, a, b))
    J, sa, sb = (F(t.states[i].particle.spin) for i in (parent, a, b))
    if None in (P, Pa, Pb):
        return None
    return int(P) * int(Pa) * int(Pb) * (-1) ** int(J - sa - sb)


def worker(config, tier, seed):
    try:
        return run(config, tier, seed)
    except Unsupported as exc:
        return [Result(name="translate", kind="identity", status="unknown", config=config["name"], detail=f"Unsupported: {exc}")]


def run(config, tier, seed):
    naming = config.get("naming", {})
    r_h, b_h, m_h = build({**config, "formalism": "helicity", "naming": naming})
    if config.get("history"):
        # the same builder is used again after a naming flag was changed (stale per-builder state must not leak)
        for flag, val in config["history"].items():
            setattr(b_h.naming, flag, val)
        m_h = b_h.formulate()
    r_c, b_c, m_c = build({**config, "formalism": "canonical-helicity", "naming": naming})
    ctx = Ctx(config["name"])
    tr = Translator(ctx, complex_symbols=is_coeff)
    hel = chain_info(ctx, tr, r_h, b_h, m_h, False)
    can = chain_info(ctx, tr, r_c, b_c, m_c, True)
    by_states: dict = {}
    for c in can:
        by_states.setdefault(state_key(c["t"]), []).append(c)
    out, obs, pairs = [], [], {}
    needed = {}
    for h in hel:
        terms = by_states.get(state_key(h["t"]), [])
        needed[h["name"]] = sp.Add(*[c["kappa"] * c["coeff"] * c["cg"] for c in terms])  # c_hel(t)
    # (A) chains sharing one helicity coefficient symbol.  The overall sign of an incoherent group (fixed
    # outer projections) is unobservable, so chains are compared up to one sign s_g per group:
    #     kappa_hel(t) * C_sym = s_g(t) * c_hel(t)     for every chain t.
    # Each shared symbol fixes the relative sign of two groups (decided by the solver); the signs must
    # be consistent over all symbols (a 2-colouring), and (B) is the final arbiter on intensities.
    from vf.refmodel import outer_key

    by_symbol: dict = {}
    for h in hel:
        by_symbol.setdefault(h["coeff"], []).append(h)
    edges = []
    for sym, chains in by_symbol.items():
        rep = chains[0]
        for other in chains[1:]:
            lhs, rhs = other["kappa"] * needed[rep["name"]], rep["kappa"] * needed[other["name"]]
            rel = None
            for r in (1, -1):
                if holds(ctx, tr(lhs), tr(rhs) * r):
                    rel = r
                    break
            label = f"(A) {other['name']} vs {rep['name']} share {sym}"
            if rel is None:
                plus = z3.And(*[c == 0 for _, c in tr(lhs).eq_components(tr(rhs))] or [z3.BoolVal(True)])
                minus = z3.And(*[c == 0 for _, c in tr(lhs).eq_components(tr(-rhs))] or [z3.BoolVal(True)])
                obs.append(Obligation(label + " (up to a group sign)", z3.Or(plus, minus), "identity"))
                pairs[label + " (up to a group sign)"] = (lhs, rhs, True)
                continue
            obs += identity_obligations(label + f" [relative group sign {rel:+d}]", tr(lhs), tr(rhs) * rel)
            pairs[label + f" [relative group sign {rel:+d}]"] = (lhs, rel * rhs, False)
            g1, g2 = outer_key(rep["t"]), outer_key(other["t"])
            if g1 == g2 and rel != 1:
                out.append(Result(name=f"(ground) {other['name']} and {rep['name']} are coherent but need opposite signs", kind="ground", status="fail",
                                  config=config["name"], replay={"reproduced": True}))  # fmt: skip
            edges.append((g1, g2, rel))
    sign = {}
    consistent = True
    for g in {outer_key(h["t"]) for h in hel}:
        if g in sign:
            continue
        sign[g] = 1
        stack = [g]
        while stack:
            u = stack.pop()
            for a, b, r in edges:
                for x, y in ((a, b), (b, a)):
                    if x == u:
                        if y not in sign:
                            sign[y] = sign[u] * r
                            stack.append(y)
                        elif sign[y] != sign[u] * r:
                            consistent = False
    out.append(Result(name="(ground) unobservable group signs can be chosen consistently", kind="ground", status="ok" if consistent else "fail",
                      config=config["name"], replay={"reproduced": not consistent, "note": "confirmed or refuted on intensities by (B)"}))  # fmt: skip
    definition = {}
    for sym, chains in by_symbol.items():
        rep = chains[0]
        definition[sym] = sign[outer_key(rep["t"])] * needed[rep["name"]] / rep["kappa"]
    # (B) intensities
    Ih = m_h.expression.doit().xreplace(definition)
    Ic = m_c.expression.doit()
    obs += identity_obligations("(B) helicity intensity with CG-expanded coefficients == canonical intensity", tr(Ih), tr(Ic))
    pairs["(B) helicity intensity with CG-expanded coefficients == canonical intensity"] = (Ih, Ic, False)

    def replay(name, asg):
        lhs, rhs, either = pairs[name.split("::")[0]]
        subs = subs_from_assignment(tr, asg)
        for k_, s_ in enumerate(sorted((lhs.free_symbols | rhs.free_symbols) - set(subs), key=str)):
            subs[s_] = sp.Rational(2 + k_, 5) + sp.I * sp.Rational(1 + k_, 7)
        r = differs(lhs, rhs, subs, rel=1e-10)
        if either and r["reproduced"]:
            r["reproduced"] = differs(lhs, -rhs, subs, rel=1e-10)["reproduced"]
        return r

    res = discharge(ctx, obs, config=config["name"], replay=replay, timeout_s=config.get("timeout", 120), hunt_rounds=4)
    for r in out + res:
        if r.status in ("sat", "fail"):
            r.selector = f"{config['name']}::{r.name.split('::')[0]}"
    return out + res


def configs(tier):
    # every node strong or electromagnetic (parity conserving); reactions mixing a weak production node with a
    # strong decay node cannot be generated "under the same parity-conserving interactions" in both formalisms
    # with one qrules setting and are outside the bound
    names = ["J/psi->gamma f0,f2", "J/psi->K*+ K- (K*->K+ pi0)", "J/psi->Sigma~(1750) Sigma+ (Sigma~->K0 p~)"]
    if tier == "thorough":
        names += ["J/psi->gamma f0(980)"]
    out = [{"name": n, "reaction": n} for n in names]
    if tier == "thorough":
        out.append({"name": "J/psi->Sigma~(1750) Sigma+ (Sigma~->K0 p~)|parent-helicities", "reaction": "J/psi->Sigma~(1750) Sigma+ (Sigma~->K0 p~)", "naming": {"insert_parent_helicities": True}})
    out.append({"name": "J/psi->K*+ K- (K*->K+ pi0)|parent-helicities", "reaction": "J/psi->K*+ K- (K*->K+ pi0)", "naming": {"insert_parent_helicities": True}})
    out.append({"name": "J/psi->K*+ K- (K*->K+ pi0)|formulate, set parent-helicities, formulate again", "reaction": "J/psi->K*+ K- (K*->K+ pi0)",
                "history": {"insert_parent_helicities": True}})  # fmt: skip
    return out


def main():
    import ampform.helicity as h
    from ampform.helicity import decay, naming

    chk = Check("C03", __doc__)
    chk.run(worker, configs(chk.tier))
    chk.finish(
        functions=[
            naming.HelicityAmplitudeNameGenerator, naming.CanonicalAmplitudeNameGenerator, decay.get_prefactor,
            h.HelicityAmplitudeBuilder.formulate, h.formulate_isobar_cg_coefficients, h.formulate_isobar_wigner_d,
        ],  # fmt: skip
        bounds={"reactions": [c["name"] for c in configs(chk.tier)], "constrained nodes": "1 and 2"},
        assumptions=[
            "all canonical LS coefficients are free complex solver variables; all angles free",
            "helicity and canonical transitions are matched by topology and (particle, helicity) on every edge",
            "Clebsch-Gordan coefficients from Racah's formula (vf/refmodel.py)",
        ],
        outside=["more than 2 parity-constrained nodes", "reactions not listed", "reactions with a weak (parity-violating) node"],
    )


if __name__ == "__main__":
    main()
