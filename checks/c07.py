"""C07  Kinematic variables mean what their names say, in every topology.

Encoded from /repo (E2: the NumPy code lambdify generates, executed on symbolic momenta):
HelicityAdapter.create_expressions / compute_helicity_angles / compute_invariant_masses,
naming via get_helicity_angle_symbols / get_invariant_mass_symbol.   DESIGN.md section 4, C07.

(a) masses: m >= 0, m^2 == (sum E)^2 - |sum p|^2 for the final-state ids in the subscript.
(b) helicity angles == an independent boost-and-rotate reference (own matrices, own naming
    from the topology), compared as cos(theta) and (cos phi, sin phi).
(c) three-body decays: cos(theta_i^{ij}) of the four-vector route == formulate_scattering_angle(i, j) in the
    Dalitz variables of the same event (narrow bound: rational rest-frame events under a symbolic rotation).
(d) one name, one quantity: every name defined by two registered topologies has equal values.
If the library's code for a configuration cannot be encoded (deeper frames than the reference needs), concrete
witness events are tried on the real code: a reproduced difference is a VIOLATION, otherwise INCONCLUSIVE.
"""

from __future__ import annotations

import ctypes
import itertools
from fractions import Fraction

import numpy as np
import sympy as sp
import z3

from vf.core import Ctx, Unsupported
from vf.harness import Check
from vf.replay import rat
from vf.solve import Obligation, Result, discharge, identity_obligations, merge_lemma_obligations, side_obligations
from vf.sym2smt import Translator
from vf.symnp import SymNumPy, generated_source, momentum_array, sym_exec, validate_shim


def _topologies(n):
    from qrules.topology import create_isobar_topologies

    return create_isobar_topologies(n)


def attached(topology, edge_id):
    e = topology.edges[edge_id]
    if e.ending_node_id is None:
        return (edge_id,)
    out = []
    for c in sorted(topology.get_edge_ids_outgoing_from_node(e.ending_node_id)):
        out.extend(attached(topology, c))
    return tuple(sorted(out))


def label(ids):
    return "".join(map(str, sorted(ids)))


# --------------------------------------------------------------------------- independent reference
class Ref:
    """Textbook helicity-frame recursion over symbolic values (independent of ampform's code)."""

    def __init__(self, ctx, topology, P):
        self.ctx, self.t = ctx, topology
        self.sn = SymNumPy(ctx, radicands="assume")
        self.angles = {}  # name -> ("phi", unit V) | ("theta", cos V)
        top = next(iter(topology.incoming_edge_ids))
        mom = {i: [P[i][0, c] for c in range(4)] for i in topology.outgoing_edge_ids}
        self.walk(topology.edges[top].ending_node_id, mom, [])

    def spherical(self, p):
        """(phi, theta) as angle objects, through the same primitive operations NumPy performs
        (arctan2, arccos, then cos/sin of the results): the reference differs from the library in
        the recursion, the frame order, the momenta used and the naming -- not in these primitives."""
        E, x, y, z = p
        norm = self.sn._sqrt1(x * x + y * y + z * z)
        phi = self.sn._arctan2(y, x)
        theta = self.sn._arccos1(z * norm.inverse())
        return phi, theta, norm

    def helicity_frame(self, p_sub, vectors):
        """Rz(-phi), Ry(-theta), Bz(beta) applied in this order (one contraction, like an einsum)"""
        from vf.symnp import sym_einsum

        ctx = self.ctx
        phi, theta, norm = self.spherical(p_sub)
        cph, sph = (-phi).cos(), (-phi).sin()
        cth, sth = (-theta).cos(), (-theta).sin()
        o, l = ctx.const(0), ctx.const(1)
        Rz = np.array([[l, o, o, o], [o, cph, -sph, o], [o, sph, cph, o], [o, o, o, l]], dtype=object)
        Ry = np.array([[l, o, o, o], [o, cth, o, sth], [o, o, l, o], [o, -sth, o, cth]], dtype=object)
        beta = norm * p_sub[0].inverse()
        gamma = self.sn._sqrt1(l - beta * beta).inverse()
        gb = gamma * beta
        Bz = np.array([[gamma, o, o, -gb], [o, l, o, o], [o, o, l, o], [-gb, o, o, gamma]], dtype=object)
        out = {}
        for k, v in vectors.items():
            vec = np.array(v, dtype=object)
            out[k] = list(sym_einsum("ij,jk,kl,l->i", Bz, Ry, Rz, vec))
        return out

    def total(self, mom, ids):
        vec = None
        for i in sorted(ids):
            vec = list(mom[i]) if vec is None else [a + b for a, b in zip(vec, mom[i])]
        return vec

    def register(self, helicity_ids, chain, p):
        suffix = "_" + label(helicity_ids) + ("^" + ",".join(chain) if chain else "")
        phi, theta, _ = self.spherical(p)
        self.angles[f"phi{suffix}"] = ("phi", phi.unit)
        self.angles[f"theta{suffix}"] = ("theta", theta.unit.real_part())

    def walk(self, node, mom, chain):
        t = self.t
        kids = sorted(t.get_edge_ids_outgoing_from_node(node))
        fs = {k: attached(t, k) for k in kids}
        a, b = kids
        helicity, opposite = (a, b) if fs[a] < fs[b] else (b, a)  # smaller attached tuple = helicity state
        if all(len(fs[k]) == 1 for k in kids):
            self.register(fs[helicity], chain, mom[helicity])
        for kid in kids:
            if len(fs[kid]) > 1:
                p_sub = self.total(mom, fs[kid])
                # named after the helicity state of this node, filled with this isobar's momentum (documented)
                self.register(fs[helicity], chain, p_sub)
                sub = self.helicity_frame(p_sub, {i: mom[i] for i in fs[kid]})
                self.walk(t.edges[kid].ending_node_id, sub, [label(fs[kid]), *chain])


# --------------------------------------------------------------------------- library through E2
def library_values(ctx, topology, P, cse, which=("angles", "masses"), max_depth=None):
    from ampform.kinematics.angles import compute_helicity_angles
    from ampform.kinematics.lorentz import compute_invariant_masses, create_four_momentum_symbols

    momenta = create_four_momentum_symbols(topology)
    exprs = {}
    if "angles" in which:
        exprs.update(compute_helicity_angles(momenta, topology))
    if "masses" in which:
        exprs.update(compute_invariant_masses(momenta, topology))
    args = [momenta[i] for i in sorted(momenta)]
    ins = [P[i] for i in sorted(momenta)]
    out, fns = {}, {}
    for sym, expr in exprs.items():
        if max_depth is not None and "^" in str(sym) and str(sym).split("^")[1].count(",") + 1 > max_depth:
            continue  # nested deeper than the stated bound
        fn, src = generated_source(args, expr.doit(), cse=cse)
        out[str(sym)] = sym_exec(ctx, src, ins, radicands="assume")[0]
        fns[str(sym)] = fn
    return out, fns, args


def setup_event(ctx, ids, massless=()):
    P = {}
    for i in ids:
        P[i] = momentum_array(ctx, f"p{i}", 1)
        E, x, y, z = (P[i][0, c].real_term_nodiv() for c in range(4))
        ctx.assume(E > 0)
        ctx.mark_positive(E)
        ctx.assume(E * E >= x * x + y * y + z * z if i in massless else E * E > x * x + y * y + z * z)
    return P


def numeric_event(asg, ids):
    return {i: np.array([[float(asg.get(f"p{i}[0].{c}", 1.0)) for c in "Exyz"]]) for i in ids}


def real_value(fn, args, ev):
    import warnings

    with warnings.catch_warnings():
        warnings.simplefilter("ignore")
        return complex(np.asarray(fn(*[ev[int(str(a)[1:])] for a in args])).ravel()[0])


# --------------------------------------------------------------------------- (a) masses
def cfg_masses(config, tier, seed):
    topology = _topologies(config["n"])[config["t"]]
    cse = config["cse"]
    ctx = Ctx(config["name"])
    ids = sorted(topology.outgoing_edge_ids)
    P = setup_event(ctx, ids)
    vals, fns, args = library_values(ctx, topology, P, cse, which=("masses",))
    obs, extra = [], []
    zero = ctx.const(0)
    seen = set()
    for edge in topology.edges:
        sub = attached(topology, edge)
        name = f"m_{label(sub)}"
        if name in seen:
            continue
        seen.add(name)
        if name not in vals:
            obs.append(Obligation(f"{name} defined", z3.BoolVal(False), "identity"))
            continue
        tot = [sum((P[i][0, c] for i in sub[1:]), P[sub[0]][0, c]) for c in range(4)]
        m2 = tot[0] * tot[0] - tot[1] * tot[1] - tot[2] * tot[2] - tot[3] * tot[3]
        m = vals[name]
        obs += identity_obligations(f"{name}^2 == (sum E)^2-|sum p|^2", m * m, m2)
        # reality and sign, E4-style: m2 = sum m_i^2 + 2 sum_{i<j} (E_i E_j - p_i.p_j), each summand >= 0
        lem = []
        for i in sub:
            E, x, y, z = (P[i][0, c] for c in range(4))
            lem.append(E * E - x * x - y * y - z * z)
        pair_terms = []
        for i, j in itertools.combinations(sub, 2):
            dot = P[i][0, 0] * P[j][0, 0] - P[i][0, 1] * P[j][0, 1] - P[i][0, 2] * P[j][0, 2] - P[i][0, 3] * P[j][0, 3]
            pair_terms.append(dot)
            if (i, j) not in seen:
                seen.add((i, j))
                a3 = [P[i][0, c_] for c_ in (1, 2, 3)]
                b3 = [P[j][0, c_] for c_ in (1, 2, 3)]
                A = a3[0] * a3[0] + a3[1] * a3[1] + a3[2] * a3[2]
                B = b3[0] * b3[0] + b3[1] * b3[1] + b3[2] * b3[2]
                d3 = a3[0] * b3[0] + a3[1] * b3[1] + a3[2] * b3[2]
                cx = [a3[1] * b3[2] - a3[2] * b3[1], a3[2] * b3[0] - a3[0] * b3[2], a3[0] * b3[1] - a3[1] * b3[0]]
                obs += identity_obligations(f"[lemma] Lagrange: |p{i}|^2|p{j}|^2 - (p{i}.p{j})^2 == |p{i} x p{j}|^2", A * B - d3 * d3, cx[0] * cx[0] + cx[1] * cx[1] + cx[2] * cx[2])
                Ei, Ej, oA, oB, od, oc1, oc2, oc3 = (z3.Real(f"o_{q}") for q in ("Ei", "Ej", "A", "B", "d", "c1", "c2", "c3"))
                hyp = z3.And(Ei > 0, Ej > 0, oA >= 0, oB >= 0, Ei * Ei > oA, Ej * Ej > oB, oA * oB - od * od == oc1 * oc1 + oc2 * oc2 + oc3 * oc3)
                obs.append(Obligation(f"[final] time-like, future |- E{i}E{j} - p{i}.p{j} > 0 (opaque |p|^2, p.p, cross product)", z3.Implies(hyp, Ei * Ej - od > 0), "lemma"))
        total = lem[0]
        for t_ in lem[1:]:
            total = total + t_
        for t_ in pair_terms:
            total = total + t_ * 2
        obs += identity_obligations(f"[lemma] ({name})^2 == sum m_i^2 + 2 sum p_i.p_j", m2, total)
        k = len(lem) + len(pair_terms)
        ops = [z3.Real(f"o{q}") for q in range(k)]
        obs.append(Obligation(f"[final] summands >= 0 |- {name}^2 >= 0", z3.Implies(z3.And(*[o >= 0 for o in ops]), z3.Sum(ops[: len(lem)]) + 2 * z3.Sum(ops[len(lem) :] or [z3.RealVal(0)]) >= 0), "lemma"))
        # the code value is sqrt of ITS radicand, assumed >= 0 (E2 'assume' mode): the positive root by
        # construction; that radicand equals the reference m^2 (identity above), which is >= 0 (lemma chain)
        ok = m.is_real()
        extra.append(Result(name=f"{name} is a non-negative real root", kind="ground", status="ok" if ok else "fail", config=config["name"],
                            replay={"reproduced": not ok}))  # fmt: skip

    def replay(name, asg):
        ev = numeric_event(asg, ids)
        nm = name.split("::")[0].split("^2")[0].split(" ")[0].strip("()")
        if nm not in fns:
            return {"reproduced": "defined" in name}
        sub = [int(ch) for ch in nm[2:]]
        tot = sum(ev[i][0] for i in sub)
        m2 = tot[0] ** 2 - tot[1] ** 2 - tot[2] ** 2 - tot[3] ** 2
        got = real_value(fns[nm], args, ev)
        bad = abs(got * got - m2) > 1e-9 * (1 + abs(m2)) or (m2 >= 0 and (abs(got.imag) > 1e-9 or got.real < -1e-9))
        return {"reproduced": bool(bad), "code": str(got), "m2_from_momenta": float(m2)}

    return extra + discharge(ctx, obs, config=config["name"], replay=replay, timeout_s=30, hunt_rounds=6)


# --------------------------------------------------------------------------- (b) angles
def cfg_angles(config, tier, seed):
    topology = _topologies(config["n"])[config["t"]]
    if config.get("perm"):
        import attrs

        ids = sorted(topology.outgoing_edge_ids)
        mapping = dict(zip(ids, config["perm"]))
        topology = attrs.evolve(topology, edges={mapping.get(i, i): e for i, e in topology.edges.items()})
    cse = config["cse"]
    ctx = Ctx(config["name"])
    ids = sorted(topology.outgoing_edge_ids)
    P = setup_event(ctx, ids)
    try:
        vals, fns, args = library_values(ctx, topology, P, cse, which=("angles",))
    except (Unsupported, RecursionError, z3.Z3Exception, ctypes.ArgumentError) as exc:
        # the reference frames of this topology are within the bound, so the library's code needed more nested
        # frames than the reference: no encoding, no verdict -- but look for a concrete witness on the real code
        return witness_search(config, topology, cse, seed, f"{type(exc).__name__}: {str(exc)[:120]}")
    ref = Ref(ctx, topology, P).angles
    out, obs = [], []
    for name in sorted(set(vals) | set(ref)):
        if name not in vals or name not in ref:
            out.append(Result(name=f"{name}: defined by {'library' if name in vals else 'reference'} only", kind="ground", status="fail",
                              config=config["name"], replay={"reproduced": True, "library_names": sorted(vals), "reference_names": sorted(ref)}))  # fmt: skip
            continue
        kind, rv = ref[name]
        lv = vals[name]
        if kind == "phi":
            obs += identity_obligations(f"{name}: (cos,sin) == reference", lv.unit, rv)
        else:
            obs += identity_obligations(f"{name}: cos == reference", lv.unit.real_part(), rv)

    def replay(name, asg):
        ev = numeric_event(asg, ids)
        nm = name.split(":")[0]
        got = real_value(fns[nm], args, ev)
        want = numeric_reference(topology, ev)[nm]
        d = abs(np.exp(1j * got.real) - np.exp(1j * want))
        return {"reproduced": bool(np.isnan(got.real) or d > 1e-7), "library": str(got), "reference": float(want)}

    res = discharge(ctx, merge_lemma_obligations(ctx) + obs + side_obligations(ctx), config=config["name"], replay=replay, timeout_s=config.get("timeout", 40), hunt_rounds=8)
    return out + res


def witness_search(config, topology, cse, seed, why):
    """After a failed encoding: evaluate the real generated code and the float reference at a few concrete events.
    A reproduced difference is a VIOLATION; no difference leaves the configuration INCONCLUSIVE (never 'holds')."""
    import random

    from ampform.kinematics.angles import compute_helicity_angles
    from ampform.kinematics.lorentz import create_four_momentum_symbols

    momenta = create_four_momentum_symbols(topology)
    args = [momenta[i] for i in sorted(momenta)]
    ids = sorted(topology.outgoing_edge_ids)
    rng = random.Random(seed)
    exprs = compute_helicity_angles(momenta, topology)
    for sym, expr in sorted(exprs.items(), key=lambda kv: str(kv[0])):
        fn, _ = generated_source(args, expr.doit(), cse=cse)
        for _k in range(6):
            asg = {}
            for i in ids:
                p = [rng.randint(-9, 9) / 7 for _ in range(3)]
                asg.update({f"p{i}[0].x": p[0], f"p{i}[0].y": p[1], f"p{i}[0].z": p[2], f"p{i}[0].E": (sum(c * c for c in p) + rng.randint(1, 9) / 5) ** 0.5})
            ev = numeric_event(asg, ids)
            got, want = real_value(fn, args, ev), numeric_reference(topology, ev).get(str(sym))
            if want is None or np.isnan(got.real) or abs(np.exp(1j * got.real) - np.exp(1j * want)) > 1e-7:
                return [Result(name=f"{sym}: library value == reference (concrete witness after failed encoding)", kind="identity", status="sat", config=config["name"],
                               assignment={k: repr(v) for k, v in asg.items()}, detail=why,
                               replay={"reproduced": True, "library": str(got), "reference": None if want is None else float(want), "event": {k: float(v) for k, v in asg.items()}})]  # fmt: skip
    return [Result(name="translate", kind="identity", status="unknown", config=config["name"], detail=f"encoding failed ({why}); no concrete witness found")]


def numeric_reference(topology, ev):
    """float version of Ref (for replay): name -> angle value"""
    out = {}

    def spherical(p):
        return np.arctan2(p[2], p[1]), np.arccos(p[3] / np.sqrt(p[1] ** 2 + p[2] ** 2 + p[3] ** 2))

    def frame(p_sub, vecs):
        phi, th = spherical(p_sub)
        c, s = np.cos(-phi), np.sin(-phi)
        Rz = np.array([[1, 0, 0, 0], [0, c, -s, 0], [0, s, c, 0], [0, 0, 0, 1.0]])
        c, s = np.cos(-th), np.sin(-th)
        Ry = np.array([[1, 0, 0, 0], [0, c, 0, s], [0, 0, 1, 0], [0, -s, 0, c.item() if hasattr(c, "item") else c]])
        beta = np.sqrt(p_sub[1] ** 2 + p_sub[2] ** 2 + p_sub[3] ** 2) / p_sub[0]
        g = 1 / np.sqrt(1 - beta**2)
        Bz = np.array([[g, 0, 0, -g * beta], [0, 1, 0, 0], [0, 0, 1, 0], [-g * beta, 0, 0, g]])
        return {k: Bz @ Ry @ Rz @ v for k, v in vecs.items()}

    def walk(node, mom, chain):
        kids = sorted(topology.get_edge_ids_outgoing_from_node(node))
        fs = {k: attached(topology, k) for k in kids}
        a, b = kids
        hel = a if fs[a] < fs[b] else b

        def reg(p):
            suffix = "_" + label(fs[hel]) + ("^" + ",".join(chain) if chain else "")
            out[f"phi{suffix}"], out[f"theta{suffix}"] = spherical(p)

        if all(len(fs[k]) == 1 for k in kids):
            reg(mom[hel])
        for kid in kids:
            if len(fs[kid]) > 1:
                p_sub = sum(mom[i] for i in fs[kid])
                reg(p_sub)
                walk(topology.edges[kid].ending_node_id, frame(p_sub, {i: mom[i] for i in fs[kid]}), [label(fs[kid]), *chain])

    top = next(iter(topology.incoming_edge_ids))
    walk(topology.edges[top].ending_node_id, {i: ev[i][0] for i in ev}, [])
    return out


# --------------------------------------------------------------------------- (c) Dalitz closed form
def cfg_dalitz(config, tier, seed):
    """three-body decay in the parent rest frame: cos(theta_i^{ij}) of the four-vector route (generated code, E2)
    == the library's closed form formulate_scattering_angle(i, j) in the Dalitz variables of the same event.
    Bound as in C04: a concrete rational rest-frame event rotated by a SYMBOLIC angle about a coordinate axis
    (the closed form is a rational constant of the event, the four-vector route a function of t)."""
    from ampform.kinematics.angles import formulate_scattering_angle

    from checks.c04 import make_event, rotated

    cse = config["cse"]
    base = _topologies(3)[0]
    inner = next(i for i in base.edges if i not in base.outgoing_edge_ids and i not in base.incoming_edge_ids)
    topology = base.relabel_edges({inner: 10}).relabel_edges(dict(zip(sorted(base.outgoing_edge_ids), config["perm"])))
    ctx = Ctx(config["name"])
    tz = ctx.real("t")
    ctx.univariate = (tz, sp.Symbol("t"))
    event = make_event(seed, config["event"])
    P = dict(zip((1, 2, 3), rotated(ctx, event, config["axis"], tz)))
    vals, fns, args = library_values(ctx, topology, P, cse, which=("angles",))
    name = next(n for n in vals if n.startswith("theta") and "^" in n)
    i = int(name.split("_")[1][0])
    j = next(int(ch) for ch in name.split("^")[1] if int(ch) != i)
    cos_lib = vals[name].unit.real_part().normalized()
    _, closed = formulate_scattering_angle(i, j)
    if isinstance(closed, sp.acos):
        ratio = closed.args[0]
    elif isinstance(-closed, sp.acos):
        ratio = (-closed).args[0]  # cos(-x) = cos(x)
    else:
        raise Unsupported(f"closed form is not +-acos(...): {str(closed)[:80]}")

    def m2(ids):  # exact squared invariant mass of the (unrotated) rational event
        tot = [sum(event[n - 1][c] for n in ids) for c in range(4)]
        return tot[0] ** 2 - tot[1] ** 2 - tot[2] ** 2 - tot[3] ** 2

    fresh, sq = {}, {}
    for s_ in sorted(ratio.free_symbols, key=str):
        ids = tuple(int(ch) for ch in s_.name[2:]) if s_.name != "m_0" else (1, 2, 3)
        fresh[s_] = sp.Symbol(f"Msq_{s_.name[2:]}", positive=True)
        sq[fresh[s_]] = ctx.const(m2(ids))
    closed_cos = Translator(ctx, symbol_values=sq)(_msq(ratio.doit(), fresh)).normalized()
    obs = identity_obligations(f"cos({name}) == closed form cos(theta_{i}{j}) in the Dalitz variables", cos_lib, closed_cos)

    def replay(nm, asg):
        t_val = float(Fraction(asg.get("t", 0)))
        w = 2 * np.arctan(t_val)
        c, s_ = np.cos(w), np.sin(w)
        Rm = {"z": np.array([[c, -s_, 0], [s_, c, 0], [0, 0, 1]]), "y": np.array([[c, 0, s_], [0, 1, 0], [-s_, 0, c]]), "x": np.array([[1, 0, 0], [0, c, -s_], [0, s_, c]])}[config["axis"]]
        ev = {n: np.array([[float(event[n - 1][0]), *(Rm @ np.array([float(v) for v in event[n - 1][1:]]))]]) for n in (1, 2, 3)}
        got = real_value(fns[name], args, ev)
        subs = {s_: sp.sqrt(rat(m2(tuple(int(ch) for ch in s_.name[2:]) if s_.name != "m_0" else (1, 2, 3)))) for s_ in closed.free_symbols}
        want = complex(closed.doit().xreplace(subs).evalf())
        d_ = abs(np.cos(got.real) - np.cos(want.real)) + abs(want.imag)
        return {"reproduced": bool(np.isnan(got.real) or d_ > 1e-7), "four-vector route": str(got), "closed form": str(want), "rotation_angle": w, "axis": config["axis"]}

    return discharge(ctx, merge_lemma_obligations(ctx) + obs, config=config["name"], replay=replay, timeout_s=config.get("timeout", 60), hunt_rounds=0)


def _msq(expr, fresh):
    """m -> sqrt(Msq): the closed form contains masses only in even powers; anything else is reported"""
    out = expr.xreplace({s_: sp.sqrt(f) for s_, f in fresh.items()})
    odd = [p for p in out.atoms(sp.Pow) if p.base in set(fresh.values()) and not p.exp.is_Integer]
    if odd or out.free_symbols & set(fresh):
        raise Unsupported(f"closed form is not a function of squared masses only: {sorted(map(str, odd))}")
    return out


# --------------------------------------------------------------------------- (d) one name, one quantity
def cfg_names(config, tier, seed):
    from ampform.kinematics import HelicityAdapter

    n = config["n"]
    base = _topologies(n)
    adapter = HelicityAdapter(base if config.get("all") else [base[config["t"]]])
    if config.get("permute", True):
        adapter.permutate_registered_topologies()
    extra = []
    # registering a topology of a different decay must be refused and leave the adapter unchanged
    before = adapter.registered_topologies
    foreign = _topologies(n - 1 if n > 2 else n + 1)[0]
    try:
        adapter.register_topology(foreign)
        refused = False
    except ValueError:
        refused = True
    unchanged = adapter.registered_topologies == before
    extra.append(Result(name="foreign topology refused, adapter unchanged", kind="ground", status="ok" if refused and unchanged else "fail",
                        config=config["name"], replay={"reproduced": not (refused and unchanged), "refused": refused, "unchanged": unchanged}))  # fmt: skip
    if not unchanged:
        adapter = HelicityAdapter(before)
    tops = sorted(adapter.registered_topologies, key=lambda t: sorted((k, e.originating_node_id, e.ending_node_id) for k, e in t.edges.items()))
    ctx = Ctx(config["name"])
    ids = sorted(tops[0].outgoing_edge_ids)
    P = setup_event(ctx, ids)
    defs: dict[str, list] = {}
    fnmap = {}
    for k, t in enumerate(tops):
        vals, fns, args = library_values(ctx, t, P, config["cse"], max_depth=config.get("max_depth", 1))
        for name, v in vals.items():
            defs.setdefault(name, []).append((k, v))
            fnmap[name, k] = (fns[name], args)
    obs = []
    for name, lst in sorted(defs.items()):
        k0, v0 = lst[0]
        for k, v in lst[1:]:
            a, b = (v0.unit, v.unit) if hasattr(v0, "unit") else (v0, v)
            if name.startswith("theta"):
                a, b = a.real_part(), b.real_part()
            comps = a.eq_components(b)
            obs.append(Obligation(f"{name}: topology#{k0} == topology#{k}", z3.And(*[t == 0 for _, t in comps]) if comps else z3.BoolVal(True), "identity"))

    def replay(name, asg):
        ev = numeric_event(asg, ids)
        nm, rest = name.split(": ")
        k0, k = (int(s_.split("#")[1]) for s_ in rest.split(" == "))
        v0, v = (real_value(*fnmap[nm, q], ev) for q in (k0, k))
        d = abs(np.exp(1j * v0.real) - np.exp(1j * v.real)) if not nm.startswith("m_") else abs(v0 - v)
        return {"reproduced": bool(d > 1e-7), "values": [str(v0), str(v)], "topologies": [str(tops[k0]), str(tops[k])][:2]}

    res = discharge(ctx, merge_lemma_obligations(ctx) + obs, config=config["name"], replay=replay, timeout_s=config.get("timeout", 8), hunt_rounds=0)
    for r in res:
        if r.status == "sat":
            r.selector = f"{config['name']}::{r.name.split(':')[0]}"
    return extra + res


def worker(config, tier, seed):
    try:
        return {"masses": cfg_masses, "angles": cfg_angles, "names": cfg_names, "dalitz": cfg_dalitz}[config["kind"]](config, tier, seed)
    except Unsupported as exc:
        return [Result(name="translate", kind="identity", status="unknown", config=config["name"], detail=f"Unsupported: {exc}")]


def _frame_depth(topology) -> int:
    """number of nested helicity frames below the top frame"""

    def depth(node):
        d = 0
        for k in topology.get_edge_ids_outgoing_from_node(node):
            e = topology.edges[k]
            if e.ending_node_id is not None:
                d = max(d, 1 + depth(e.ending_node_id))
        return d

    top = next(iter(topology.incoming_edge_ids))
    return depth(topology.edges[top].ending_node_id)


def configs(tier):
    out = []
    sizes = (2, 3, 4) if tier == "quick" else (2, 3, 4, 5)
    for n in sizes:
        for t in range(len(_topologies(n))):
            for cse in (True, False) if (tier == "thorough" or n <= 3) else (True,):
                out.append({"name": f"masses:n={n}:t={t}:cse={cse}", "kind": "masses", "n": n, "t": t, "cse": cse})
                if _frame_depth(_topologies(n)[t]) <= 1:
                    out.append({"name": f"angles:n={n}:t={t}:cse={cse}", "kind": "angles", "n": n, "t": t, "cse": cse})
    # relabelled topologies
    for n, perms in ((3, [(1, 2, 0), (2, 0, 1), (0, 2, 1)]), (4, [(1, 0, 3, 2), (3, 2, 1, 0)] if tier == "quick" else list(itertools.permutations(range(4)))[1::3])):
        for t in range(len(_topologies(n))):
            if _frame_depth(_topologies(n)[t]) > 1:
                continue
            for perm in perms:
                out.append({"name": f"angles:n={n}:t={t}:perm={''.join(map(str, perm))}:cse=True", "kind": "angles", "n": n, "t": t, "perm": perm, "cse": True})
    for perm in ((1, 2, 3), (2, 1, 3), (3, 1, 2)):  # isobars (23), (13), (12): every closed form theta_ij the recursion can name
        for axis in ("x", "y", "z"):
            for k in range(2 if tier == "quick" else 6):
                for cse in (True, False) if tier == "thorough" else (True,):
                    out.append({"name": f"dalitz:perm={''.join(map(str, perm))}:axis={axis}:event#{k}:cse={cse}", "kind": "dalitz", "perm": perm, "axis": axis, "event": k, "cse": cse})
    out.append({"name": "names:n=3:all-permutations", "kind": "names", "n": 3, "all": True, "cse": True})
    out.append({"name": "names:n=4:t=0:permutations", "kind": "names", "n": 4, "t": 0, "cse": True})
    out.append({"name": "names:n=4:t=1:permutations", "kind": "names", "n": 4, "t": 1, "cse": True})
    if tier == "thorough":
        out.append({"name": "names:n=4:all-permutations", "kind": "names", "n": 4, "all": True, "cse": True, "timeout": 8})
    return out


def main():
    from ampform.helicity import naming
    from ampform.kinematics import HelicityAdapter, angles, lorentz

    chk = Check("C07", __doc__)
    chk.errors += [f"E2 shim disagrees with NumPy: {e}" for e in validate_shim(chk.seed)]
    chk.run(worker, configs(chk.tier))
    chk.finish(
        functions=[
            angles.compute_helicity_angles, angles.formulate_scattering_angle, angles.Phi.evaluate, angles.Theta.evaluate, lorentz.compute_invariant_masses,
            lorentz.get_invariant_mass_symbol, lorentz.InvariantMass.evaluate, naming.get_boost_chain_suffix,
            naming.get_helicity_angle_symbols, HelicityAdapter.create_expressions, HelicityAdapter.permutate_registered_topologies,
        ],  # fmt: skip
        bounds={"final states": "2..4 (masses 2..5 thorough)", "relabelings": "selected permutations", "batch": 1, "cse": "on/off",
                "(c) Dalitz closed form": "three isobar choices (12), (13), (23); 2 (6 thorough) concrete rational rest-frame events each, rotated by a symbolic angle about x, y, z"},
        assumptions=[
            "events: every final-state momentum time-like with E > 0 (massless excluded)",
            "reference recursion: helicity state = child with the smaller attached final-state tuple; an isobar's angles are "
            "named after the helicity state of its node and filled with the isobar's momentum (as the library's doctest documents)",
            "sqrt in generated code = principal root",
        ],
        outside=["(b) for topologies with two or more nested helicity frames (4-body cascade 0(1(23)), 5-body): the exact radical "
                 "arithmetic of the second frame exceeds what the engine builds; (a) and (d) still cover them",
                 "(c) for events other than the rotated rational ones (the closed form itself is covered for all masses by C19)", "momentum along +-z or at rest (0/0)", "floating point"],
    )


if __name__ == "__main__":
    main()
