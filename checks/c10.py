"""C10  Production vectors solve the K-matrix equation and honour their arguments.

Encoded from /repo (E1 + uninterpreted functions): NonRelativisticPVector /
RelativisticPVector .formulate/.parametrization/_create_matrices (+ return_f_hat),
Relativistic/NonRelativisticKMatrix.parametrization, EnergyDependentWidth, FormFactor,
relativistic_breit_wigner(_with_ff).   DESIGN.md section 4, C10.

A  abstract: (1 - iK) F = P for all K, P;  (1 - i K-hat rho) F-hat = P, F = sqrt(rho) F-hat.
B  composition / honour the arguments: formulate(phsp_factor=X, angular_momentum=L,
   meson_radius=d) equals the abstract F with K_ij, P_i, rho_i replaced by the library's own
   parametrisations *called with the caller's X, L, d*.  X ranges over the library's
   phase-space classes and over an UNINTERPRETED function rhoX(s,m1,m2) > 0 (so the
   statement holds for every phase-space factor meeting that contract).
C  Breit-Wigner reductions stated in docs/usage/dynamics/k-matrix (n=1, one pole, gamma=1).
D  the functools caches: every obligation of B is generated for both return_f_hat values
   in both call orders inside one process.
"""

from __future__ import annotations

import sympy as sp
import z3

from vf.compose import composition_obligations
from vf.core import Ctx, Unsupported
from vf.harness import Check
from vf.replay import concrete_uf, differs, subs_from_assignment
from vf.solve import Obligation, Result, discharge, identity_obligations, side_obligations
from vf.sym2smt import Translator

NAME_CLASSES = ("BreakupMomentumSquared",)


def _km():
    from ampform.dynamics import kmatrix

    return kmatrix


def _phsp(name):
    if name == "UF":
        f = sp.Function("rhoX", real=True)
        return lambda s, m1, m2: f(s, m1, m2)
    import ampform.dynamics as dyn

    return getattr(dyn, name)


def _symbols():
    return dict(
        s=sp.Symbol("s", nonnegative=True),
        m=sp.IndexedBase("m", nonnegative=True),
        G=sp.IndexedBase("Gamma", nonnegative=True),
        g=sp.IndexedBase("gamma", nonnegative=True),
        beta=sp.IndexedBase("beta", nonnegative=True),
        m_a=sp.IndexedBase("m_a", nonnegative=True),
        m_b=sp.IndexedBase("m_b", nonnegative=True),
        R=sp.Symbol("R", integer=True, positive=True),
        d=sp.Symbol("d", positive=True),
    )


class UFTranslator(Translator):
    """rhoX applications are positive (the stated contract of a phase-space factor above threshold)."""

    def _uf(self, e):
        v = super()._uf(e)
        term = v.c[frozenset()][0]
        if term.get_id() not in self.ctx.known_pos:
            self.ctx.assume(term > 0)
            self.ctx.mark_positive(term)
        return v


def template_defects(config_name, tpl, tag):
    """ground: what parametrize=False returns contains nothing but the placeholders K[i,j], P[i], rho_i (and s-free)"""
    K, P, rho = _placeholders(tpl)
    allowed = {*K.values(), *P.values(), *rho.values()}
    foreign = sorted((str(x) for x in (tpl.atoms(sp.Indexed) | {f for f in tpl.free_symbols if isinstance(f, sp.Symbol)}) - allowed
                      if not (isinstance(x, sp.Symbol) and any(x in a.free_symbols for a in allowed))))  # fmt: skip
    if not foreign:
        return [Result(name=f"{tag}parametrize=False returns the template over K, P, rho only", kind="ground", status="ok", config=config_name)]
    return [Result(name=f"{tag}parametrize=False returns the template over K, P, rho only", kind="ground", status="fail", config=config_name,
                   replay={"reproduced": True, "foreign symbols in the template": foreign[:12], "template": str(tpl)[:400]})]  # fmt: skip


def mk_tr(ctx, **kw):
    return UFTranslator(ctx, branch_by_solver=True, name_classes=NAME_CLASSES, **kw)


# --------------------------------------------------------------------------- A
def _placeholders(mat):
    """Placeholder symbols of a template, identified by NAME (robust to changed assumptions)."""
    K, P, rho = {}, {}, {}
    for sym in mat.free_symbols | mat.atoms(sp.Indexed):
        if isinstance(sym, sp.Indexed):
            if sym.base.name not in ("K", "P") or not all(k.is_Integer for k in sym.indices):
                continue  # not a placeholder (template_defects reports it)
            idx = tuple(int(k) for k in sym.indices)
            if sym.base.name == "K":
                K[idx] = sym
            elif sym.base.name == "P":
                P[idx[0]] = sym
        elif isinstance(sym, sp.Symbol) and sym.name.startswith("rho") and sym.name[3:].isdigit():
            rho[int(sym.name[3:])] = sym
    return K, P, rho


def abstract_part(config_name, kind, n, F, Fh, *, complex_rho=False, timeout=60, tag=""):
    """Obligations: the template(s) satisfy the defining equation for all K (real), P (complex), rho."""
    ctx = Ctx(config_name)
    Ks, Ps, rhos = _placeholders(F if Fh is None else sp.Matrix([F, Fh]))
    Kv = {(i, j): ctx.var(f"K[{i}, {j}]") for i in range(n) for j in range(n)}
    Pv = {i: ctx.cvar(f"P[{i}, 0]") for i in range(n)}
    vals = {sym: Kv[idx] for idx, sym in Ks.items()}
    vals.update({sym: Pv[i] for i, sym in Ps.items()})
    one, zero, I = ctx.const(1), ctx.const(0), ctx.I()
    obs = []
    sig = {}
    if kind == "rel":
        for i in range(n):
            r = rhos.get(i, sp.Symbol(f"rho{i}"))
            if complex_rho:
                # rho_i = sigma_i^2 with sigma_i = sqrt(rho_i) the principal root (Re sigma > 0)
                sg = ctx.cvar(f"sigma{i}")
                ctx.assume(ctx.vars[f"re[sigma{i}]"] > 0)
                sig[i] = sg
                vals[r] = sg * sg
                vals[sp.sqrt(r)] = sg
                vals[1 / sp.sqrt(r)] = sg.inverse()
            else:
                z = ctx.real(str(r))
                ctx.assume(z > 0)
                ctx.mark_positive(z)
                vals[r] = ctx.var(str(r))
                sig[i] = vals[r].sqrt()
    tr = Translator(ctx, symbol_values=vals)
    if kind == "nonrel":
        FV = [tr(F[i, 0]) for i in range(n)]
        for i in range(n):
            acc = zero
            for k in range(n):
                acc = acc + ((one if i == k else zero) - I * Kv[i, k]) * FV[k]
            obs += identity_obligations(f"{tag}(1-iK)F=P[{i}]", acc, Pv[i])
    else:
        FhV = [tr(Fh[i, 0]) for i in range(n)]
        FV = [tr(F[i, 0]) for i in range(n)]
        for i in range(n):
            acc = zero
            for k in range(n):
                # K-hat_ik rho_k = K_ik sigma_k^2 / (conj(sigma_i) sigma_k)
                khat_rho = Kv[i, k] * sig[k] / sig[i].conjugate()
                acc = acc + ((one if i == k else zero) - I * khat_rho) * FhV[k]
            obs += identity_obligations(f"{tag}(1-i Khat rho)Fhat=P[{i}]", acc, Pv[i])
            obs += identity_obligations(f"{tag}F=sqrt(rho)Fhat[{i}]", FV[i], sig[i] * FhV[i])

    def replay(name, asg):
        def cval(nm):
            return sp.Rational(*asg[f"re[{nm}]"].as_integer_ratio()) + sp.I * sp.Rational(*asg[f"im[{nm}]"].as_integer_ratio())

        subs = {sym: sp.Rational(*asg[f"K[{i}, {j}]"].as_integer_ratio()) for (i, j), sym in Ks.items()}
        subs.update({sym: cval(f"P[{i}, 0]") for i, sym in Ps.items()})
        sgn = {}
        for i, r in rhos.items():
            sgn[i] = cval(f"sigma{i}") if complex_rho else sp.sqrt(sp.Rational(*asg[str(r)].as_integer_ratio()))
            subs[r] = sp.expand(sgn[i] ** 2)
        head = name.split("::")[0]
        i = int(head[head.rindex("[") + 1 : head.rindex("]")])
        Kn = sp.Matrix(n, n, lambda a, b: sp.Rational(*asg[f"K[{a}, {b}]"].as_integer_ratio()))
        Pn = sp.Matrix(n, 1, lambda a, b: cval(f"P[{a}, 0]"))
        if kind == "nonrel":
            Fn = sp.Matrix(n, 1, lambda a, b: sp.N(F[a, 0].xreplace(subs), 40))
            res = ((sp.eye(n) - sp.I * Kn) * Fn - Pn)[i]
        else:
            Fhn = sp.Matrix(n, 1, lambda a, b: sp.N(Fh[a, 0].xreplace(subs), 40))
            if "F=sqrt" in head:
                res = sp.N(F[i, 0].xreplace(subs), 40) - sgn[i] * Fhn[i]
            else:
                M = sp.Matrix(n, n, lambda a, b: Kn[a, b] * sgn[b] / sp.conjugate(sgn[a]))
                res = ((sp.eye(n) - sp.I * M) * Fhn - Pn)[i]
        res = sp.N(abs(res), 20)
        return {"reproduced": bool(res.is_finite and res > 1e-12), "residual": str(res)}

    return discharge(ctx, obs + side_obligations(ctx), config=config_name, replay=replay, timeout_s=timeout)


def cfg_abstract(config, tier, seed):
    kind, n = config["kind"], config["n"]
    km = _km()
    if kind == "nonrel":
        F = km.NonRelativisticPVector.formulate(n_channels=n, n_poles=1, parametrize=False)
        return abstract_part(config["name"], kind, n, F, None, timeout=config.get("timeout", 60))
    Fh = km.RelativisticPVector.formulate(n_channels=n, n_poles=1, parametrize=False, return_f_hat=True)
    F = km.RelativisticPVector.formulate(n_channels=n, n_poles=1, parametrize=False)
    return abstract_part(
        config["name"], kind, n, F, Fh, complex_rho=config.get("complex_rho", False), timeout=config.get("timeout", 60)
    )


# --------------------------------------------------------------------------- B
def _expected(kind, n, n_poles, L, X, sy, tpl=None):
    km = _km()
    s, m, G, g, beta, m_a, m_b, R, d = (sy[k] for k in ("s", "m", "G", "g", "beta", "m_a", "m_b", "R", "d"))
    K = sp.IndexedBase("K", shape=(n, n))
    P = sp.IndexedBase("P", shape=(n, 1))
    rho_sym = {i: sp.Symbol(f"rho{i}") for i in range(n)}
    if tpl is not None:  # use the template's own placeholder objects, matched by name
        Ks, Ps, rhos = _placeholders(tpl)
        K = {idx: sym for idx, sym in Ks.items()}
        P = {(i, 0): sym for i, sym in Ps.items()}
        for i in range(n):
            for j in range(n):
                K.setdefault((i, j), sp.IndexedBase("K", shape=(n, n))[i, j])
            P.setdefault((i, 0), sp.IndexedBase("P", shape=(n, 1))[i, 0])
        rho_sym.update(rhos)
    exp = {}
    for i in range(n):
        for j in range(n):
            if kind == "nonrel":
                exp[K[i, j]] = km.NonRelativisticKMatrix.parametrization(
                    i=i, j=j, s=s, pole_position=m, pole_width=G, residue_constant=g, n_poles=n_poles, pole_id=R
                )
            else:
                exp[K[i, j]] = km.RelativisticKMatrix.parametrization(
                    i=i, j=j, s=s, pole_position=m, pole_width=G, m_a=m_a, m_b=m_b, residue_constant=g,
                    n_poles=n_poles, pole_id=R, angular_momentum=L, meson_radius=d, phsp_factor=X,
                )  # fmt: skip
        if kind == "nonrel":
            exp[P[i, 0]] = km.NonRelativisticPVector.parametrization(
                i=i, s=s, pole_position=m, pole_width=G, residue_constant=g, beta_constant=beta, n_poles=n_poles, pole_id=R
            )
        else:
            exp[P[i, 0]] = km.RelativisticPVector.parametrization(
                i=i, s=s, pole_position=m, pole_width=G, m_a=m_a, m_b=m_b, beta_constant=beta,
                residue_constant=g, n_poles=n_poles, pole_id=R, angular_momentum=L, meson_radius=d,
            )  # fmt: skip
            exp[rho_sym[i]] = X(s, m_a[i], m_b[i])
    return exp


def _domain(ctx, tr, n, n_poles, sy):
    zs = tr(sy["s"]).real_term_nodiv()
    for i in range(n):
        za, zb = tr(sy["m_a"][i]).real_term_nodiv(), tr(sy["m_b"][i]).real_term_nodiv()
        ctx.assume(zs > (za + zb) * (za + zb))
        for R in range(1, n_poles + 1):
            zm = tr(sy["m"][R]).real_term_nodiv()
            ctx.assume(zm > za + zb)
    ctx.assume(zs > 0)
    ctx.mark_positive(zs)


def cfg_param(config, tier, seed):
    kind, n, n_poles = config["kind"], config["n"], config["n_poles"]
    L, phsp_name = config.get("L", 0), config.get("phsp", "PhaseSpaceFactor")
    km = _km()
    sy = _symbols()
    X = _phsp(phsp_name)
    out: list[Result] = []
    flag_orders = [(False, True), (True, False)] if kind == "rel" else [(None,)]
    for order in flag_orders:
        for flag in order:
            ctx = Ctx(config["name"])
            tr = mk_tr(ctx)
            other = n_poles % 3 + 1  # history: an earlier call with another number of poles (cached matrices)
            if kind == "nonrel":
                km.NonRelativisticPVector.formulate(n_channels=n, n_poles=other)
                full = km.NonRelativisticPVector.formulate(n_channels=n, n_poles=n_poles)
                tpl = km.NonRelativisticPVector.formulate(n_channels=n, n_poles=n_poles, parametrize=False)
                bad = template_defects(config["name"], tpl, "after-history:")
                out += bad
                if bad[0].status == "fail":
                    return out
                out += abstract_part(config["name"], kind, n, tpl, None, tag="after-history:")
                tr(sy["s"])
                node_types = (sp.Sum,)
            else:
                km.RelativisticPVector.formulate(
                    n_channels=n, n_poles=other, return_f_hat=flag, phsp_factor=X, angular_momentum=L, meson_radius=sy["d"]
                )
                full = km.RelativisticPVector.formulate(
                    n_channels=n, n_poles=n_poles, return_f_hat=flag, phsp_factor=X, angular_momentum=L, meson_radius=sy["d"]
                )
                tpl = km.RelativisticPVector.formulate(n_channels=n, n_poles=n_poles, parametrize=False, return_f_hat=flag)
                bad = template_defects(config["name"], tpl, f"after-history(order={order}):")
                out += bad
                if bad[0].status == "fail":
                    return out
                if flag:
                    tplF = km.RelativisticPVector.formulate(n_channels=n, n_poles=n_poles, parametrize=False)
                    out += [
                        r for r in abstract_part(config["name"], kind, n, tplF, tpl, tag=f"after-history(order={order}):")
                    ]
                _domain(ctx, tr, n, n_poles, sy)
                from sympy.core.function import AppliedUndef

                node_types = (sp.Sum, AppliedUndef) if phsp_name == "UF" else (sp.Sum, X)
            expected = _expected(kind, n, n_poles, L, X, sy, tpl)
            entries = {f"[{i}]": (full[i, 0], tpl[i, 0]) for i in range(n)}
            label = f"honour-args(f_hat={flag})" if kind == "rel" else "composition"
            obs, info = composition_obligations(
                ctx, tr, entries, expected, node_types, label=label,
                translator_kwargs=dict(branch_by_solver=True, name_classes=NAME_CLASSES),
            )  # fmt: skip

            def replay(name, asg, full=full, tpl=tpl, flag=flag):
                # concrete phase-space function consistent with the model of the uninterpreted one
                subs = subs_from_assignment(tr, asg)
                Xc = concrete_uf(ctx, asg, subs, "rhoX") if phsp_name == "UF" else X
                if kind == "nonrel":
                    lib = km.NonRelativisticPVector.formulate(n_channels=n, n_poles=n_poles)
                else:
                    lib = km.RelativisticPVector.formulate(
                        n_channels=n, n_poles=n_poles, return_f_hat=flag, phsp_factor=Xc, angular_momentum=L, meson_radius=sy["d"]
                    )
                exp_c = {a: e.doit() for a, e in _expected(kind, n, n_poles, L, Xc, sy, tpl).items()}
                head = name.split("::")[0]
                if "(c)" not in head:
                    return {"reproduced": True, "note": "library result lacks the node expected for a placeholder", "obligation": head}
                i = int(head[head.rindex("[") - 0 + 1 : head.rindex("]")]) if not head.endswith("[flat]") else int(head[:-6][head[:-6].rindex("[") + 1 : -1])
                return differs(lib[i, 0].doit(), tpl[i, 0].xreplace(exp_c).doit(), subs, rel=1e-9)

            res = discharge(ctx, obs + side_obligations(ctx), config=config["name"], replay=replay, timeout_s=config.get("timeout", 60))
            for r in res:
                if flag is not None and r.kind != "twin":
                    r.name = f"order={order}:{r.name}"
            out += res
    return out


# --------------------------------------------------------------------------- C
def cfg_breit_wigner(config, tier, seed):
    import ampform.dynamics as dyn

    km = _km()
    sy = _symbols()
    s, m, G, g, beta, m_a, m_b, d = (sy[k] for k in ("s", "m", "G", "g", "beta", "m_a", "m_b", "d"))
    L, phsp_name = config.get("L", 0), config.get("phsp", "PhaseSpaceFactor")
    X = _phsp(phsp_name)
    ctx = Ctx(config["name"])
    tr = mk_tr(ctx, symbol_values={g[1, 0]: ctx.const(1)})  # gamma = 1 (docs: "but for a residue constant")
    _domain(ctx, tr, 1, 1, sy)
    gamma1 = {g[1, 0]: sp.Integer(1)}
    pairs = {}
    if config["which"] == "nonrel":
        T = km.NonRelativisticKMatrix.formulate(n_channels=1, n_poles=1)[0, 0]
        F = km.NonRelativisticPVector.formulate(n_channels=1, n_poles=1)[0, 0]
        bw = dyn.relativistic_breit_wigner(s, m[1], G[1, 0])
        pairs["T==BW"] = (T, bw)
        pairs["F==beta*BW"] = (F, beta[1] * bw)
    else:
        Fh = km.RelativisticPVector.formulate(
            n_channels=1, n_poles=1, return_f_hat=True, phsp_factor=X, angular_momentum=L, meson_radius=d
        )[0, 0]
        bwff = dyn.relativistic_breit_wigner_with_ff(s, m[1], G[1, 0], m_a[0], m_b[0], L, d, phsp_factor=X)
        pairs["Fhat==beta*BW_ff"] = (Fh, beta[1] * bwff)
    obs = []
    for name, (lhs, rhs) in pairs.items():
        obs += identity_obligations(name, tr(lhs), tr(rhs))

    def replay(name, asg):
        subs = subs_from_assignment(tr, asg)
        subs.update(gamma1)
        lhs, rhs = pairs[name.split("::")[0]]
        if phsp_name == "UF":
            Xc = concrete_uf(ctx, asg, subs, "rhoX")
            Fh_c = km.RelativisticPVector.formulate(
                n_channels=1, n_poles=1, return_f_hat=True, phsp_factor=Xc, angular_momentum=L, meson_radius=d
            )[0, 0]
            bw_c = beta[1] * dyn.relativistic_breit_wigner_with_ff(s, m[1], G[1, 0], m_a[0], m_b[0], L, d, phsp_factor=Xc)
            return differs(Fh_c.doit(), bw_c.doit(), subs, rel=1e-9)
        return differs(lhs.doit(), rhs.doit(), subs, rel=1e-9)

    return discharge(ctx, obs + side_obligations(ctx), config=config["name"], replay=replay, timeout_s=60)


def worker(config, tier, seed):
    try:
        return {"abstract": cfg_abstract, "param": cfg_param, "bw": cfg_breit_wigner}[config["level"]](config, tier, seed)
    except Unsupported as exc:
        return [Result(name="translate", kind="identity", status="unknown", config=config["name"], detail=f"Unsupported: {exc}")]


REAL_PHSP = ("PhaseSpaceFactor", "PhaseSpaceFactorAbs", "PhaseSpaceFactorComplex")


def configs(tier):
    out = []
    ns = (1, 2) if tier == "quick" else (1, 2, 3)
    for kind in ("nonrel", "rel"):
        for n in ns:
            if kind == "rel" and n == 3:
                continue  # sqrt(rho_i) generators for three channels: not decided within the limits
            out.append({"name": f"abstract:{kind}:n={n}", "level": "abstract", "kind": kind, "n": n, "timeout": 60 if n < 3 else 900})
            if kind == "rel" and n <= 2:
                out.append({"name": f"abstract:rel:n={n}:complex-rho", "level": "abstract", "kind": kind, "n": n, "complex_rho": True, "timeout": 120})
    if tier == "quick":
        nonrel = [(1, 1), (2, 2)]
        rel = [(1, 1, 0, "UF"), (2, 2, 1, "UF"), (1, 2, 2, "PhaseSpaceFactor"), (2, 1, 1, "PhaseSpaceFactorAbs")]
        bws = [(0, "PhaseSpaceFactor"), (1, "UF"), (2, "PhaseSpaceFactorAbs")]
    else:
        nonrel = [(n, p) for n in (1, 2, 3) for p in (1, 2, 3)]
        rel = [(n, p, L, "UF") for n in (1, 2) for p in (1, 2, 3) for L in (0, 1, 2) if (n * p <= 4 or L <= 1)]
        rel += [(n, p, L, ph) for ph in REAL_PHSP for (n, p, L) in ((1, 1, 0), (2, 2, 1), (1, 3, 2), (2, 1, 2), (1, 1, 2))]
        bws = [(L, ph) for L in range(3) for ph in (*REAL_PHSP, "UF")]
    for n, p in nonrel:
        out.append({"name": f"param:nonrel:n={n}:poles={p}", "level": "param", "kind": "nonrel", "n": n, "n_poles": p})
    for n, p, L, ph in rel:
        out.append({"name": f"param:rel:n={n}:poles={p}:L={L}:{ph}", "level": "param", "kind": "rel", "n": n, "n_poles": p, "L": L, "phsp": ph})
    out.append({"name": "bw:nonrel", "level": "bw", "which": "nonrel"})
    for L, ph in bws:
        out.append({"name": f"bw:rel:L={L}:{ph}", "level": "bw", "which": "rel", "L": L, "phsp": ph})
    return out


def main():
    km = _km()
    import ampform.dynamics as dyn
    from ampform.dynamics import form_factor as ff

    chk = Check("C10", __doc__)
    chk.run(worker, configs(chk.tier))
    chk.finish(
        functions=[
            km.NonRelativisticPVector._create_matrices,
            km.NonRelativisticPVector.formulate,
            km.NonRelativisticPVector.parametrization,
            km.RelativisticPVector._create_matrices,
            km.RelativisticPVector.formulate,
            km.RelativisticPVector.parametrization,
            km.RelativisticKMatrix.parametrization,
            km.NonRelativisticKMatrix.parametrization,
            dyn.EnergyDependentWidth.evaluate,
            ff.FormFactor.evaluate,
            dyn.relativistic_breit_wigner,
            dyn.relativistic_breit_wigner_with_ff,
        ],
        bounds={"n_channels": "1..2 (non-relativistic: 1..3 in the thorough tier)", "n_poles": "1..3", "L": "0..2", "phase-space factors": "UF rhoX>0, PhaseSpaceFactor, ...Abs, ...Complex"},
        assumptions=[
            "uninterpreted phase-space factor rhoX(s,m1,m2): real and > 0 at every point where it is applied (needed for the sqrt(rho) the library takes)",
            "domain: s above every threshold, pole masses above every threshold, non-negative parameters as declared by the library's symbols, denominators non-zero",
            "K real (not necessarily symmetric) and P complex in the abstract obligations",
        ],
        outside=["relativistic n_channels > 2, non-relativistic n_channels > 3, n_poles > 3, L > 2", "phase-space factors that are complex above threshold (S-wave Chew-Mandelstam, equal-mass)", "floating point"],
    )


if __name__ == "__main__":
    main()
