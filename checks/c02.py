"""C02  Model intensity equals the helicity formula evaluated on the transitions.

Encoded from /repo (E1): the SymPy trees that HelicityAmplitudeBuilder / CanonicalAmplitudeBuilder
.formulate() emit (model.expression.doit(), model.components) -- i.e. formulate_isobar_wigner_d,
formulate_isobar_cg_coefficients, TwoBodyDecay.from_transition, __formulate_sequential_decay,
group_by_spin_projection / group_by_topology, _perform_combinatorics, HelicityModel.expression.
Oracle: vf/refmodel.py (own Wigner-d, own Clebsch-Gordan, own traversal).   DESIGN.md section 4, C02.
"""

from __future__ import annotations

import sympy as sp
import z3

from vf.core import Ctx, Unsupported, implied
from vf.harness import Check
from vf.refmodel import chain_amplitude, outer_key, symmetrised
from vf.replay import differs, subs_from_assignment
from vf.solve import Obligation, Result, discharge, identity_obligations
from vf.sym2smt import Translator

REACTIONS = {
    "J/psi->gamma f0(980)": dict(initial_state=("J/psi(1S)", [-1, +1]), final_state=["gamma", "pi0", "pi0"],
                                 allowed_intermediate_particles=["f(0)(980)"], allowed_interaction_types=["strong", "EM"]),
    "J/psi->gamma f0,f2": dict(initial_state=("J/psi(1S)", [-1, +1]), final_state=["gamma", "pi0", "pi0"],
                               allowed_intermediate_particles=["f(0)(980)", "f(2)(1270)"], allowed_interaction_types=["strong", "EM"]),
    "J/psi->pi0 omega(->gamma pi0)": dict(initial_state=("J/psi(1S)", [-1, +1]), final_state=["pi0", "pi0", "gamma"],
                                          allowed_intermediate_particles=["omega(782)"]),
    "eta_c->Lambda Lambda~": dict(initial_state="eta(c)(1S)", final_state=["Lambda", "Lambda~"]),
    "Lambda_c->p K pi": dict(initial_state="Lambda(c)+", final_state=["p", "K-", "pi+"],
                             allowed_intermediate_particles=["Lambda(1520)", "Delta(1232)++", "K*(892)0"]),
    "J/psi->K0 Sigma+ p~": dict(initial_state="J/psi(1S)", final_state=["K0", "Sigma+", "p~"],
                                allowed_intermediate_particles=["Sigma(1660)~-", "N(1650)+"], allowed_interaction_types=["strong"]),
    "psi(4160)->D- D*0 pi+": dict(initial_state=("psi(4160)", [-1, +1]), final_state=["D-", "D0", "pi+"],
                                  allowed_intermediate_particles=["D*(2007)0", "D*(2010)+"]),
    "D0->K0 K+ K- (a0,phi)": dict(initial_state="D0", final_state=["K~0", "K+", "K-"],
                                  allowed_intermediate_particles=["a(0)(980)0", "phi(1020)", "a(0)(980)+"]),
}  # fmt: skip


def build(config):
    import logging

    import qrules

    import ampform

    logging.getLogger().setLevel(logging.ERROR)
    reaction = qrules.generate_transitions(**REACTIONS[config["reaction"]], formalism=config["formalism"], number_of_threads=1)
    builder = ampform.get_builder(reaction)
    builder.config.use_helicity_couplings = config.get("couplings", False)
    for flag, val in config.get("naming", {}).items():
        setattr(builder.naming, flag, val)
    model = builder.formulate()
    return reaction, builder, model


def is_coeff(s):
    return isinstance(s, sp.Symbol) and s.name.startswith(("C_", "H_"))


def holds(ctx, lhs, rhs) -> bool:
    """cheap pre-selection of the sign/permutation: polynomial-zero test by z3's simplifier, then the solver;
    the selected identity is discharged as an obligation afterwards in any case"""
    comps = lhs.eq_components(rhs)
    undecided = []
    for _, t in comps:
        s_ = z3.simplify(t, som=True)
        if z3.is_rational_value(s_):
            if s_.numerator_as_long() != 0:
                return False
            continue
        undecided.append(t)
    return all(implied(ctx, t == 0, 20000) for t in undecided)


def worker(config, tier, seed):
    try:
        return run(config, tier, seed)
    except Unsupported as exc:
        return [Result(name="translate", kind="identity", status="unknown", config=config["name"], detail=f"Unsupported: {exc}")]


def run(config, tier, seed):
    from ampform.helicity.naming import generate_transition_label

    reaction, builder, model = build(config)
    canonical = config["formalism"] == "canonical-helicity"
    ctx = Ctx(config["name"])
    tr = Translator(ctx, complex_symbols=is_coeff)
    out, obs = [], []
    # ---- (i) every chain component == kappa * coefficient * reference chain amplitude
    chain_ref = {}  # index of transition -> (coefficient expr, kappa, list of reference chain amplitudes)
    pairs = {}
    for k, t in enumerate(reaction.transitions):
        name = "A_{" + builder.naming.generate_amplitude_name(t) + "}"
        comp = model.components.get(name)
        syms = symmetrised(t)
        refs = [chain_amplitude(s_, canonical=canonical) for s_ in syms]
        if comp is None:
            out.append(Result(name=f"component {name} exists", kind="ground", status="fail", config=config["name"], replay={"reproduced": True}))
            continue
        coeff = sp.Mul(*sorted((s_ for s_ in comp.free_symbols if is_coeff(s_)), key=str))
        Vc = tr(comp.doit())
        # the chain's sign relative to its coefficient is the explicit numeric factor the library wrote (+-1)
        kappa = comp.as_coeff_Mul()[0]
        if kappa not in (1, -1):
            kappa = sp.Integer(1)
        kappa = int(kappa)
        idx = next((q for q, ref in enumerate(refs) if holds(ctx, Vc, tr(coeff * ref) * kappa)), 0)
        label = f"chain {name} == ({kappa:+d})*coefficient*reference[perm {idx}]"
        obs += identity_obligations(label, Vc, tr(coeff * refs[idx]) * kappa)
        pairs[label] = (comp.doit(), kappa * coeff * refs[idx], False)
        chain_ref[k] = (coeff, kappa, refs)
    # ---- (ii) intensity == incoherent sum over outer projections of |coherent sum|^2
    groups: dict = {}
    seen_terms = set()
    for k, t in enumerate(reaction.transitions):
        if k not in chain_ref:
            continue
        coeff, kappa, refs = chain_ref[k]
        for s_, ref in zip(symmetrised(t), refs):
            ident = (coeff, tuple(sorted((i, str(st)) for i, st in s_.states.items())), tuple(sorted((i, e.originating_node_id, e.ending_node_id) for i, e in s_.topology.edges.items())))
            if ident in seen_terms:
                continue
            seen_terms.add(ident)
            groups.setdefault(outer_key(t), []).append(kappa * coeff * ref)
    ref_intensity = sp.Add(*[sp.Abs(sp.Add(*terms)) ** 2 for terms in groups.values()])
    expr = model.expression.doit()
    obs += identity_obligations("intensity == sum_outer |sum_chains|^2", tr(expr), tr(ref_intensity))
    pairs["intensity == sum_outer |sum_chains|^2"] = (expr, ref_intensity, False)
    # ---- (iii) named intensity components
    first_of_group: dict = {}
    for t in reaction.transitions:
        first_of_group.setdefault(outer_key(t), t)
    for key, t in first_of_group.items():
        cname = "I_{" + generate_transition_label(t) + "}"
        comp = model.components.get(cname)
        if comp is None:
            continue
        want = sp.Abs(sp.Add(*groups.get(key, [sp.Integer(0)]))) ** 2
        obs += identity_obligations(f"component {cname} == |group sum|^2", tr(comp.doit().xreplace(model.amplitudes).doit()), tr(want))
        pairs[f"component {cname} == |group sum|^2"] = (comp.doit().xreplace(model.amplitudes).doit(), want, False)

    def replay(name, asg):
        head = name.split("::")[0]
        lhs, rhs, either_sign = pairs[head]
        subs = subs_from_assignment(tr, asg)
        free = (lhs.free_symbols | rhs.free_symbols) - set(subs)
        for k_, s_ in enumerate(sorted(free, key=str)):
            # symbols the encoding treated as free but the model leaves undefined (e.g. amplitude symbols)
            subs[s_] = sp.Rational(3 + k_, 7)
        r = differs(lhs, rhs, subs, rel=1e-10)
        if either_sign and r["reproduced"]:
            r2 = differs(lhs, -rhs, subs, rel=1e-10)
            r["reproduced"] = r2["reproduced"]
        undefined = sorted(str(s_) for s_ in lhs.atoms(sp.Indexed))
        if undefined:
            r["undefined_amplitude_symbols_in_expression"] = undefined
        return r

    res = discharge(ctx, obs, config=config["name"], replay=replay, timeout_s=config.get("timeout", 120), hunt_rounds=4)
    for r in res:
        if r.status == "sat":
            r.selector = f"{config['name']}::{r.name.split('::')[0]}"
    return out + res


def configs(tier):
    out = []
    quick = ["J/psi->gamma f0(980)", "J/psi->gamma f0,f2", "J/psi->pi0 omega(->gamma pi0)", "eta_c->Lambda Lambda~", "Lambda_c->p K pi"]
    names = quick if tier == "quick" else list(REACTIONS)
    for rname in names:
        for formalism in ("helicity", "canonical-helicity"):
            out.append({"name": f"{rname}|{formalism}", "reaction": rname, "formalism": formalism})
    out.append({"name": "J/psi->gamma f0,f2|helicity|couplings", "reaction": "J/psi->gamma f0,f2", "formalism": "helicity", "couplings": True})
    out.append({"name": "J/psi->gamma f0,f2|canonical-helicity|parent-helicities", "reaction": "J/psi->gamma f0,f2", "formalism": "canonical-helicity",
                "naming": {"insert_parent_helicities": True}})  # fmt: skip
    out.append({"name": "Lambda_c->p K pi|helicity|child-helicities-off", "reaction": "Lambda_c->p K pi", "formalism": "helicity",
                "naming": {"insert_child_helicities": False}})  # fmt: skip
    if tier == "thorough":
        out.append({"name": "Lambda_c->p K pi|canonical-helicity|couplings", "reaction": "Lambda_c->p K pi", "formalism": "canonical-helicity", "couplings": True})
    return out


def main():
    import ampform.helicity as h
    from ampform.helicity import decay

    chk = Check("C02", __doc__)
    chk.run(worker, configs(chk.tier))
    chk.finish(
        functions=[
            h.formulate_isobar_wigner_d, h.formulate_isobar_cg_coefficients, decay.TwoBodyDecay.from_transition,
            decay.is_opposite_helicity_state, decay.group_by_spin_projection, decay.group_by_topology, decay.get_prefactor,
            h._perform_combinatorics, h.HelicityAmplitudeBuilder.formulate, h.HelicityModel.expression.fget,
        ],  # fmt: skip
        bounds={"reactions": list(REACTIONS) if chk.tier == "thorough" else "5 reactions (see configurations)", "formalisms": 2, "flags": "coefficients/couplings, naming flags"},
        assumptions=[
            "all helicity angles and all coefficient values are solver variables (angles via x = 4 atan t)",
            "reference conventions: conj D^J_{m,la-lb}(phi,theta,0) = e^{i m phi} d^J(theta); helicity child = smaller attached final-state tuple; "
            "CG(L 0; S d | J d) CG(s_a l_a; s_b -l_b | S d)",
            "the sign kappa = +-1 of a chain relative to its shared coefficient is taken from the library here (its correctness is property C03)",
            "no lineshapes (C13 covers their attachment)",
        ],
        outside=["reactions not listed", "spins > 3", "floating point"],
    )


if __name__ == "__main__":
    main()
