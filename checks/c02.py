"""C02  Model intensity equals the helicity formula evaluated on the transitions.

Encoded from /repo (E1): the SymPy trees that HelicityAmplitudeBuilder / CanonicalAmplitudeBuilder
.formulate() emit (model.expression.doit(), model.components) -- i.e. formulate_isobar_wigner_d,
formulate_isobar_cg_coefficients, TwoBodyDecay.from_transition, __formulate_sequential_decay,
group_by_spin_projection / group_by_topology, _perform_combinatorics, HelicityModel.expression.
Oracle: vf/refmodel.py (own Wigner-d, own Clebsch-Gordan, own traversal).   DESIGN.md section 4, C02.
"""

from __future__ import annotations

import sympy as sp
import z3

from vf.core import Ctx, Unsupported, implied
from vf.harness import Check
from vf.refmodel import chain_amplitude, outer_key, symmetrised
from vf.replay import differs, subs_from_assignment
from vf.solve import Obligation, Result, discharge, identity_obligations
from vf.sym2smt import Translator

REACTIONS = {
    "J/psi->gamma f0(980)": dict(initial_state=("J/psi(1S)", [-1, +1]), final_state=["gamma", "pi0", "pi0"],
                                 allowed_intermediate_particles=["f(0)(980)"], allowed_interaction_types=["strong", "EM"]),
    "J/psi->gamma f0,f2": dict(initial_state=("J/psi(1S)", [-1, +1]), final_state=["gamma", "pi0", "pi0"],
                               allowed_intermediate_particles=["f(0)(980)", "f(2)(1270)"], allowed_interaction_types=["strong", "EM"]),
    "J/psi->pi0 omega(->gamma pi0)": dict(initial_state=("J/psi(1S)", [-1, +1]), final_state=["pi0", "pi0", "gamma"],
                                          allowed_intermediate_particles=["omega(782)"]),
    "eta_c->Lambda Lambda~": dict(initial_state="eta(c)(1S)", final_state=["Lambda", "Lambda~"]),
    "Lambda_c->p K pi": dict(initial_state="Lambda(c)+", final_state=["p", "K-", "pi+"],
                             allowed_intermediate_particles=["Lambda(1520)", "Delta(1232)++", "K*(892)0"]),
    "J/psi->K0 Sigma+ p~": dict(initial_state="J/psi(1S)", final_state=["K0", "Sigma+", "p~"],
                                allowed_intermediate_particles=["Sigma(1660)~-", "N(1650)+"], allowed_interaction_types=["strong"]),
    "psi(4160)->D- D*0 pi+": dict(initial_state=("psi(4160)", [-1, +1]), final_state=["D-", "D0", "pi+"],
                                  allowed_intermediate_particles=["D*(2007)0", "D*(2010)+"]),
    "D0->K0 K+ K- (a0,phi)": dict(initial_state="D0", final_state=["K~0", "K+", "K-"],
                                  allowed_intermediate_particles=["a(0)(980)0", "phi(1020)", "a(0)(980)+"]),
}  # fmt: skip


def build(config):
    import logging

    import qrules

    import ampform

    logging.getLogger().setLevel(logging.ERROR)
    reaction = qrules.generate_transitions(**REACTIONS[config["reaction"]], formalism=config["formalism"], number_of_threads=1)
    builder = ampform.get_builder(reaction)
    builder.config.use_helicity_couplings = config.get("couplings", False)
    for flag, val in config.get("naming", {}).items():
        setattr(builder.naming, flag, val)
    model = builder.formulate()
    return reaction, builder, model


def is_coeff(s):
    return isinstance(s, sp.Symbol) and s.name.startswith(("C_", "H_"))


def holds(ctx, lhs, rhs) -> bool:
    """cheap pre-selection of the sign/permutation: polynomial-zero test by z3's simplifier, then the solver;
    the selected identity is discharged as an obligation afterwards in any case"""
    comps = lhs.eq_components(rhs)
    undecided = []
    for _, t in comps:
        s_ = z3.simplify(t, som=True)
        if z3.is_rational_value(s_):
            if s_.numerator_as_long() != 0:
                return False
            continue
        undecided.append(t)
    return all(implied(ctx, t == 0, 20000) for t in undecided)


def worker(config, tier, seed):
    try:
        return run(config, tier, seed)
    except Unsupported as exc:
        return [Result(name="translate", kind="identity", status="unknown", config=config["name"], detail=f"Unsupported: {exc}")]


def coeff_of(expr):
    return sp.Mul(*sorted((s_ for s_ in expr.free_symbols if is_coeff(s_)), key=str))


def term_list(expr):
    """Add args with integer multiplicities expanded: 2*X -> [X, X]"""
    out = []
    for a in sp.Add.make_args(expr):
        k, rest = a.as_coeff_Mul()
        if k.is_Integer and abs(k) > 1:
            out += [sp.sign(k) * rest] * abs(int(k))
        else:
            out.append(a)
    return out


def match_terms(ctx, tr, args, ref_terms):
    """greedy matching of library terms to reference terms; every equality is decided by z3"""
    used, result = set(), []
    ref_coeff = [coeff_of(r) for r in ref_terms]
    ref_syms = [r.free_symbols for r in ref_terms]
    for pos, a in enumerate(args):
        ca, Va, hit = coeff_of(a), None, None
        # both lists usually follow the order of reaction.transitions: try the same position first;
        # first pass: candidates over the same symbols (angles of the same decay chain), second pass: all
        order = sorted(enumerate(ref_terms), key=lambda ir: abs(ir[0] - pos))
        for same_symbols in (True, False):
            for i, r in order:
                if i in used or ref_coeff[i] != ca or (ref_syms[i] == a.free_symbols) != same_symbols:
                    continue
                Va = Va if Va is not None else tr(a)
                if holds(ctx, Va, tr(r)):
                    hit = i
                    break
            if hit is not None:
                break
        if hit is not None:
            used.add(hit)
        result.append(hit)
    return result, used


def reference_groups(reaction, builder, model, canonical, lineshape=None):
    """{outer key: [kappa*C*reference chain amplitude, ...]} incl. identical-particle symmetrisation; the
    sign kappa and the coefficient symbol of a chain are read from the library's own chain component"""
    groups: dict = {}
    seen = set()
    info = {}
    for k, t in enumerate(reaction.transitions):
        name = "A_{" + builder.naming.generate_amplitude_name(t) + "}"
        comp = model.components.get(name)
        if comp is None:
            continue
        coeff = coeff_of(comp)
        kappa = comp.as_coeff_Mul()[0]
        kappa = int(kappa) if kappa in (1, -1) else 1
        syms = symmetrised(t)
        refs = [chain_amplitude(s_, canonical=canonical, lineshape=lineshape) for s_ in syms]
        info[k] = (name, comp, coeff, kappa, syms, refs)
        for s_, ref in zip(syms, refs):
            ident = (coeff, tuple(sorted((i, str(st)) for i, st in s_.states.items())), tuple(sorted((i, e.originating_node_id, e.ending_node_id) for i, e in s_.topology.edges.items())))
            if ident in seen:
                continue
            seen.add(ident)
            groups.setdefault(outer_key(t), []).append(kappa * coeff * ref)
            META.setdefault(id(groups), {}).setdefault(outer_key(t), []).append(s_)
    return groups, info


META: dict = {}  # id(groups) -> {outer key: [symmetrised transition of each reference term]}


def run(config, tier, seed):
    reaction, builder, model = build(config)
    canonical = config["formalism"] == "canonical-helicity"
    ctx = Ctx(config["name"])
    tr = Translator(ctx, complex_symbols=is_coeff)
    out, obs, pairs = [], [], {}

    def grd(name, ok, **info):
        out.append(Result(name=name, kind="ground", status="ok" if ok else "fail", config=config["name"], replay={"reproduced": not ok, **{k: str(v)[:300] for k, v in info.items()}}))

    groups, info = reference_groups(reaction, builder, model, canonical)
    # ---- (i) every named chain component == kappa * coefficient * reference chain amplitude
    for k, (name, comp, coeff, kappa, syms, refs) in info.items():
        Vc = tr(comp.doit())
        idx = next((q for q, ref in enumerate(refs) if holds(ctx, Vc, tr(coeff * ref) * kappa)), 0)
        label = f"(i) chain {name} == ({kappa:+d})*coefficient*reference[perm {idx}]"
        obs += identity_obligations(label, Vc, tr(coeff * refs[idx]) * kappa)
        pairs[label] = (comp.doit(), kappa * coeff * refs[idx])
    missing = [t for k, t in enumerate(reaction.transitions) if k not in info]
    grd("(i) every transition has a chain component", not missing, missing=len(missing))
    # ---- (ii) amplitude definitions: the multiset of their terms == the reference terms of ONE outer-projection group
    amp_group = {}
    for A, definition in model.amplitudes.items():
        if definition == 0:
            continue  # helicity combination without a transition: contributes nothing
        args = term_list(definition)
        first = None
        for key, terms in groups.items():
            res, used = match_terms(ctx, tr, args[:1], terms)
            if res[0] is not None:
                first = key
                break
        if first is None:
            label = f"(ii) amplitude {A}: first term is a reference chain term"
            obs += identity_obligations(label, tr(args[0].doit()), ctx.const(0) if not groups else tr(next(iter(groups.values()))[0]))
            pairs[label] = (args[0].doit(), next(iter(groups.values()))[0])
            continue
        amp_group.setdefault(first, []).append((A, args))
    for key, lst in amp_group.items():
        args_all = [a for _, args in lst for a in args]
        res, used = match_terms(ctx, tr, args_all, groups[key])
        for a, hit in zip(args_all, res):
            if hit is None:
                label = f"(ii) term of group {key[1]} matches a reference chain: {str(a)[:80]}"
                cands = [r for r in groups[key] if coeff_of(r) == coeff_of(a)] or groups[key][:1]
                obs += identity_obligations(label, tr(a.doit()), tr(cands[0]))
                pairs[label] = (a.doit(), cands[0])
            else:
                label = f"(ii) term == reference chain #{hit} of group {key[1]}: {str(a)[:60]}"
                obs += identity_obligations(label, tr(a.doit()), tr(groups[key][hit]))
                pairs[label] = (a.doit(), groups[key][hit])
        grd(f"(ii) group {key[1]}: every reference chain term occurs exactly once in the amplitude definitions", len(used) == len(groups[key]) and None not in res,
            library_terms=len(args_all), reference_terms=len(groups[key]), unmatched_reference=[str(groups[key][i])[:80] for i in range(len(groups[key])) if i not in used][:3])  # fmt: skip
    grd("(ii) every outer-projection group of the reference has an amplitude definition", set(amp_group) == set(groups), missing=[k[1] for k in set(groups) - set(amp_group)][:3])
    # ---- (iii) intensity: incoherent over outer-projection groups, coherent within a group (all topologies)
    A_vals = {A: (ctx.cvar(f"amp[{A}]") if d != 0 else ctx.const(0)) for A, d in model.amplitudes.items()}
    tr_int = Translator(ctx, symbol_values=dict(A_vals), complex_symbols=is_coeff)
    want = ctx.const(0)
    want_expr = sp.Integer(0)
    for key, lst in amp_group.items():
        acc = ctx.const(0)
        for A, _ in lst:
            acc = acc + A_vals[A]
        want = want + acc.abs2()
        want_expr += sp.Abs(sp.Add(*[A for A, _ in lst])) ** 2
    I_eval = model.intensity.evaluate()
    label = "(iii) intensity (PoolSum unfolded) == sum_groups |sum of the group's amplitude symbols|^2"
    obs += identity_obligations(label, tr_int(I_eval), want)
    undefined = sorted(str(s_) for s_ in I_eval.atoms(sp.Indexed) if s_ not in model.amplitudes)
    pairs[label] = (I_eval, want_expr)
    # expression == the same with the definitions inserted; every chain term is an opaque complex unknown
    term_vals, want2, want2_expr = {}, ctx.const(0), sp.Integer(0)
    q = 0
    for key, lst in amp_group.items():
        acc = ctx.const(0)
        for A, args in lst:
            for a in args:
                if a not in term_vals:
                    term_vals[a] = ctx.cvar(f"term{q}")
                    term_vals.setdefault(-a, -term_vals[a])  # Abs() canonicalises an overall sign
                    q += 1
                acc = acc + term_vals[a]
        want2 = want2 + acc.abs2()
        want2_expr += sp.Abs(sp.Add(*[a for _, args in lst for a in args])) ** 2
    tr_expr = Translator(ctx, symbol_values={**term_vals, **A_vals}, complex_symbols=is_coeff)
    label = "(iii) expression == sum_groups |sum of chain terms|^2 (chain terms opaque)"
    obs += identity_obligations(label, tr_expr(model.expression), want2)
    pairs[label] = (model.expression, want2_expr)
    # ---- (iv) named intensity components
    from ampform.helicity.naming import generate_transition_label

    first_of_group: dict = {}
    for t in reaction.transitions:
        first_of_group.setdefault(outer_key(t), t)
    for key, t in first_of_group.items():
        cname = "I_{" + generate_transition_label(t) + "}"
        comp = model.components.get(cname)
        if comp is None or not isinstance(comp, sp.Pow) or not isinstance(comp.base, sp.Abs):
            continue
        args = term_list(comp.base.args[0])
        res, used = match_terms(ctx, tr, args, groups.get(key, []))
        if None in res:  # Abs() canonicalises an overall sign
            res, used = match_terms(ctx, tr, [-a for a in args], groups.get(key, []))
        grd(f"(iv) component {cname}: terms == reference chains of its group", None not in res and len(used) == len(groups.get(key, [])),
            library_terms=len(args), reference_terms=len(groups.get(key, [])))  # fmt: skip

    def replay(name, asg):
        head = name.split("::")[0]
        lhs, rhs = pairs[head]
        subs = subs_from_assignment(tr, asg)
        for q, s_ in enumerate(sorted((lhs.free_symbols | rhs.free_symbols | lhs.atoms(sp.Indexed) | rhs.atoms(sp.Indexed)) - set(subs), key=str)):
            nm = f"amp[{s_}]"
            if f"re[{nm}]" in asg:
                subs[s_] = sp.Rational(*asg[f"re[{nm}]"].as_integer_ratio()) + sp.I * sp.Rational(*asg[f"im[{nm}]"].as_integer_ratio())
            else:
                subs[s_] = sp.Rational(3 + q, 7) + sp.I * sp.Rational(1 + q, 9)
        r = differs(lhs.doit(), rhs.doit(), subs, rel=1e-10)
        if undefined and head.startswith("(iii) intensity"):
            r["undefined_amplitude_symbols_in_intensity"] = undefined
        return r

    res = discharge(ctx, obs, config=config["name"], replay=replay, timeout_s=config.get("timeout", 60), hunt_rounds=2)
    for r in out + res:
        if r.status in ("sat", "fail"):
            r.selector = f"{config['name']}::{r.name.split('::')[0]}"
    return out + res


def configs(tier):
    out = []
    quick = ["J/psi->gamma f0(980)", "J/psi->gamma f0,f2", "J/psi->pi0 omega(->gamma pi0)", "eta_c->Lambda Lambda~", "Lambda_c->p K pi"]
    names = quick if tier == "quick" else list(REACTIONS)
    for rname in names:
        for formalism in ("helicity", "canonical-helicity"):
            out.append({"name": f"{rname}|{formalism}", "reaction": rname, "formalism": formalism, "config_timeout": 900})
    out.append({"name": "J/psi->gamma f0,f2|helicity|couplings", "reaction": "J/psi->gamma f0,f2", "formalism": "helicity", "couplings": True})
    out.append({"name": "J/psi->gamma f0,f2|canonical-helicity|parent-helicities", "reaction": "J/psi->gamma f0,f2", "formalism": "canonical-helicity",
                "naming": {"insert_parent_helicities": True}})  # fmt: skip
    out.append({"name": "Lambda_c->p K pi|helicity|child-helicities-off", "reaction": "Lambda_c->p K pi", "formalism": "helicity",
                "naming": {"insert_child_helicities": False}})  # fmt: skip
    if tier == "thorough":
        out.append({"name": "Lambda_c->p K pi|canonical-helicity|couplings", "reaction": "Lambda_c->p K pi", "formalism": "canonical-helicity", "couplings": True})
    return out


def main():
    import ampform.helicity as h
    from ampform.helicity import decay

    chk = Check("C02", __doc__)
    chk.run(worker, configs(chk.tier))
    chk.finish(
        functions=[
            h.formulate_isobar_wigner_d, h.formulate_isobar_cg_coefficients, decay.TwoBodyDecay.from_transition,
            decay.is_opposite_helicity_state, decay.group_by_spin_projection, decay.group_by_topology, decay.get_prefactor,
            h._perform_combinatorics, h.HelicityAmplitudeBuilder.formulate, h.HelicityModel.expression.fget,
        ],  # fmt: skip
        bounds={"reactions": list(REACTIONS) if chk.tier == "thorough" else "5 reactions (see configurations)", "formalisms": 2, "flags": "coefficients/couplings, naming flags"},
        assumptions=[
            "all helicity angles and all coefficient values are solver variables (angles via x = 4 atan t)",
            "reference conventions: conj D^J_{m,la-lb}(phi,theta,0) = e^{i m phi} d^J(theta); helicity child = smaller attached final-state tuple; "
            "CG(L 0; S d | J d) CG(s_a l_a; s_b -l_b | S d)",
            "the sign kappa = +-1 of a chain relative to its shared coefficient is taken from the library here (its correctness is property C03)",
            "no lineshapes (C13 covers their attachment)",
        ],
        outside=["reactions not listed", "identical final-state particles with spin (e.g. f2 -> gamma gamma): the reference symmetrisation is untriaged there, seed C02_4 is missed", "spins > 3", "floating point"],
    )


if __name__ == "__main__":
    main()
